#!/venv/bin/python
"""Run all six checks against a behaviour-preserving refactor (must stay silent).

  tools/try_benign.py <dir with patch.diff, meta.json> [--keep-as <name>] [--tier quick]
"""
import json
import os
import shutil
import subprocess
import sys
import tempfile

VERIF = os.path.dirname(os.path.dirname(os.path.abspath(__file__)))
PROPS = ["C06", "C11", "C12", "C13", "C14", "C15"]


def sh(cmd, **kw):
    return subprocess.run(cmd, capture_output=True, text=True, **kw)


def main():
    args = sys.argv[1:]
    d = os.path.abspath(args[0])
    keep = None
    tier = "quick"
    for i, a in enumerate(args):
        if a == "--keep-as":
            keep = args[i + 1]
        if a == "--tier":
            tier = args[i + 1]
    meta = json.load(open(os.path.join(d, "meta.json")))
    base = tempfile.mkdtemp(prefix="gsim-benign-", dir="/tmp")
    wt = os.path.join(base, "wt")
    rec = {"name": meta.get("name"), "checks": {}}
    try:
        r = sh(["git", "-C", "/repo", "worktree", "add", "-q", "--detach", wt, os.environ.get("SEED_BASE", "HEAD")])
        r = sh(["git", "-C", wt, "apply", os.path.join(d, "patch.diff")])
        if r.returncode != 0:
            print("patch does not apply", r.stderr)
            return 2
        env = dict(os.environ, PYTHONPATH=wt, PYTHONDONTWRITEBYTECODE="1", MPLBACKEND="Agg")
        t = sh(["/venv/bin/python", "-m", "pytest", "-q", "-p", "no:cacheprovider", "-n", "8"], env=env, cwd=wt, timeout=1800)
        rec["tests_pass"] = t.returncode == 0
        for p in PROPS:
            out = os.path.join(base, "out_" + p)
            os.makedirs(out)
            cenv = dict(os.environ, GSIM_REPO=wt, GSIM_OUT=out, PYTHONDONTWRITEBYTECODE="1")
            r = sh([os.path.join(VERIF, "check"), p, "--tier", tier], env=cenv, cwd=VERIF, timeout=3600)
            lines = [ln[:500] for ln in r.stdout.splitlines() if ln.startswith(p + ": ") or ln.startswith("HARNESS")]
            rec["checks"][p] = {"exit": r.returncode, "lines": lines[:4]}
            if r.returncode != 0:
                # keep the replay files for triage
                dst = os.path.join("/tmp", "benign_fail_%s_%s" % (meta.get("name"), p))
                shutil.rmtree(dst, ignore_errors=True)
                shutil.copytree(out, dst)
                if r.returncode == 2:
                    rec["checks"][p]["stderr"] = r.stderr[-1500:]
        rec["silent"] = all(c["exit"] == 0 for c in rec["checks"].values())
        print(json.dumps(rec, indent=1))
        if keep:
            dst = os.path.join(VERIF, "benign", keep)
            os.makedirs(dst, exist_ok=True)
            shutil.copy(os.path.join(d, "patch.diff"), os.path.join(dst, "patch.diff"))
            m = dict(meta)
            m["verified"] = rec
            json.dump(m, open(os.path.join(dst, "meta.json"), "w"), indent=1)
        return 0
    finally:
        sh(["git", "-C", "/repo", "worktree", "remove", "--force", wt])
        shutil.rmtree(base, ignore_errors=True)


if __name__ == "__main__":
    sys.exit(main())
