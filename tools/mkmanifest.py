#!/venv/bin/python
"""Regenerate /verif/MANIFEST.json from the table below and validate it against the schema."""
import json
import os
import sys

HERE = os.path.dirname(os.path.dirname(os.path.abspath(__file__)))

NA = {
    "C01": "calc_error/calc_jacobians are pure functions of poses, measurement and offset; no seam, clock, fault or call history is involved -- deciding it is input sampling or symbolic differentiation, not simulation.",
    "C02": "Edge error and chi^2 are pure functions of the graph's numeric content; comparing with an independent rigid-body model is differential testing over inputs with nothing for a simulator to schedule or fail.",
    "C03": "One Gauss-Newton step is a deterministic function of (graph, fixed set, flag); no fault, interleaving or history is part of the claim -- input/configuration sampling, not simulation.",
    "C04": "Global optimality on linear graphs is a closed-form function of the input graph; no seam fault, schedule or history in the statement.",
    "C05": "Local convergence is a property of the numerical map from (graph, noise, tol) to result; deterministic and seam-free apart from a fault-free solver; nothing to inject.",
    "C07": "A metamorphic relation between two deterministic runs on transformed inputs; no environment interaction decides it.",
    "C08": "Invariance under re-representation (permutation, relabelling, 2*pi shifts, quaternion sign, edge splitting) is a relation between inputs; list order is data, not a delivery schedule.",
    "C09": "Group laws of the pose operators are algebraic identities of pure functions.",
    "C10": "Exactness and shape of the pure Jacobian methods; no state, seam or history.",
    "C16": "Accuracy of forward differences and agreement of optima are functions of (edge program, graph); the perturb-and-restore protocol is exercised under C15, but C16's own claim has no fault or history in it.",
    "C17": "equals is a pure predicate over pairs of objects.",
    "C18": "Constructor validation is a finite cross-product of types and shapes -- exhaustive enumeration (a different family) decides it; no environment behaviour in it.",
}

CHECKS = {
    "C06": {
        "engine": "simopt",
        "design_ref": "DESIGN.md section 4, C06",
        "technique": "deterministic simulation: seeded call histories (set_fixed/query/optimize) with fault injection at the solver, stdout and clock seams; fixed-set reference model + independent reduced Gauss-Newton step as oracles",
        "text": "Seeded search over simulated runs: thousands of generated graphs x fixed-set classes x call histories, with solver faults (NaN fill as SciPy does on a singular factor, exceptions, stalls), stdout failures and clock jumps placed inside optimize() from a dry run. After every op: fixed poses unchanged in every outcome (converged, max_iter, diverged, NaN, raised), fixed flags equal the fixed-set model, and a single-step optimize -- and every step of a shadow clone following multi-iteration calls -- equals an independently assembled dense reduced Gauss-Newton step when the reduced system is well-conditioned. Workloads include aliased pose objects, isolated/landmark/all/none fixed sets, several components, custom n-ary and numerical-Jacobian edges, -W error for the singular-factor warning. The thorough tier adds complete fault-position sweeps (one re-execution per seam event). Sampling, not proof.",
        "note": "Trusted: NumPy/SciPy, CPython io/logging, the edges' own calc_error/calc_jacobians (C01/C02 unclaimed) for the reduced-step reference; I3 asserted only when cond(H_ff)<1e8; SE(2) angles compared modulo 2*pi.",
    },
    "C12": {
        "engine": "simopt",
        "design_ref": "DESIGN.md section 4, C12",
        "technique": "deterministic simulation: split call histories under stdout/clock/solver-stall faults; single-step stepper twin + independently written stopping rule + fresh-clone replay as oracles",
        "text": "Seeded search over histories of 1..6 optimize() calls with independently drawn verbose flag, stdout sink (memory, None, slow, failing at write k), clock personality (steady, frozen, epoch 0, jumps forwards/backwards) per call, user edits / pickle / deepcopy between calls, positional / default / numpy-typed arguments, and simulated Ctrl-C inside user edge code. Every reported chi^2 is compared with a stepper twin advanced one update at a time in a benign environment, the stopping decision with an independent implementation of the documented rule, the poses after each call with the stepper's trajectory (splitting reproduces the trajectory), the printed table with the report, and the next call with the same call on a fresh clone built from visible state (no hidden state). Sampling, not proof.",
        "note": "Trusted: NumPy/SciPy, CPython io/logging. The stepper twin uses the real optimize(max_iter=1, tol=0) deliberately: hidden state or environment dependence makes the two disagree. Threshold ties of the stopping rule are accepted either way (guard bands).",
    },
    "C15": {
        "engine": "simopt",
        "design_ref": "DESIGN.md section 4, C15",
        "technique": "deterministic simulation: seeded interleavings of up to 50 queries between optimizer runs with failing exports/solves/prints; bitwise snapshot (frame-condition) model",
        "text": "Seeded search over histories that interleave up to 50 query calls (errors, chi^2, analytic and numerical Jacobians, gradient/Hessian contributions, comparisons incl. a persistent near-equal twin graph, vertex/edge/graph/parameter exports to the simulated disk, pickle/deepcopy, every pose operator and Jacobian method, alias/copy/returned-buffer/held-result probes, earlier questions asked again later) with 1..4 optimize() calls, on graphs mixing analytic edges, numerical-Jacobian twins and n-ary custom edges. A bitwise snapshot of all numeric state, fixed flags, ids and vertex bindings must be unchanged after every query, repeated queries must return identical values, and optimize may change only vertex poses (and the first vertex's flag when asked) -- also when the export, the solve or the print fails. Sampling, not proof.",
        "note": "Trusted: NumPy/SciPy, CPython io. +pi/-pi are canonicalised (observation O2). Exceptions thrown by user edge code inside the perturb/restore window are not injected (outside the statement's quantifier).",
    },
    "C13": {
        "engine": "simio",
        "design_ref": "DESIGN.md section 4, C13",
        "technique": "deterministic simulation: export/import cycle histories through a simulated raw device (short writes/reads, ENOSPC/EIO at every device event, error at close, buffer-size/newline/encoding personalities); structural field-by-field graph model, acknowledged-export => lossless",
        "text": "Seeded search over export/import histories (1..5 cycles, re-exports to the same path, optional optimize between cycles) of generated graphs in the expressible class, run through the real CPython TextIOWrapper/Buffered* stack over a simulated raw device with per-run transfer limits and platform personalities. Faults are placed at device-event granularity from a dry run. Oracle: an acknowledged export imports to a structurally identical graph (bitwise floats except the two stated exemptions), a hard write fault makes to_g2o raise and leaves the graph untouched, a read fault makes from_g2o raise, inexpressible content is refused. Sampling, not proof.",
        "note": "Trusted: CPython io stack, NumPy. Vertex.fixed and the offset_id of 2-D landmark edges are not compared (the format has no field for them). Torn-file import after a failed export is not claimed.",
    },
    "C14": {
        "engine": "simio",
        "design_ref": "DESIGN.md section 4, C14",
        "technique": "deterministic simulation: the same generated .g2o text delivered through the simulated device under arbitrary fragmentation, CRLF/LF, read errors and logger configurations to all loader entry points; independent reference parser as the model",
        "text": "Seeded search over synthesised .g2o files (all ten tags plus registered custom tags, any float()/int() syntax, extra spaces, CRLF, junk/blank/near-miss lines, legal orders) loaded through Graph.from_g2o (with and without custom edge types) and the five load_g2o* wrappers, each under its own read schedule (transfer sizes 1..64 bytes, buffer sizes, EIO at read k) and logger personality. Oracle: an independent ~150-line reference parser; objects, order, numbers (bitwise, with the stated exemptions), symmetric information, parameter resolution and warning counts must agree, and all entry points and schedules must agree with each other. Sampling, not proof.",
        "note": "Trusted: CPython io stack and logging, NumPy, the reference parser (exercised by the mutant self-test).",
    },
    "C11": {
        "engine": "simchain",
        "design_ref": "DESIGN.md section 4, C11",
        "technique": "deterministic simulation: seeded operation histories of up to 10^4 steps over a pool of poses (incl. round trips through the simulated disk and optimizer runs with the solver seam returning wild finite steps); exact-rational angle model + accumulated-rounding norm budget",
        "text": "Seeded search over long histories of pose operations (construct, compose, ominus, inverse, boxplus, +=, copy, matrix round trip, normalize, via-disk round trip, optimizer runs of 1..50 iterations under pass/stall/wild solver modes). After every step each SE(2) result must lie in [-pi, pi] and be congruent to the exact angle tracked as a rational; each SE(3) result derived from unit operands must be unit within an accumulated rounding budget; normalize() must keep the rotation with unit norm and w>=0. Sampling, not proof.",
        "note": "Trusted: Python fractions, NumPy. NaN/inf steps are not injected here (covered by C06's outcome classes).",
    },
}

PENDING_REASON = "not yet claimed: the simulation check for this property is still being built (see DESIGN.md build order); it is applicable and will move to checks."


def main():
    built = [p for p in CHECKS if os.path.exists(os.path.join(HERE, "gsim", p.lower() + ".py"))]
    with open("/root/.vp/BASELINE.json") as f:
        baseline_cmd = json.load(f)["cmd"].replace("--junitxml=<file>", "").strip()
    m = {
        "version": 1,
        "setup_cmd": "/venv/bin/python -c \"import sys; sys.path.insert(0,'/repo'); import numpy, scipy, graphslam.graph; print('ok', numpy.__version__, scipy.__version__, graphslam.graph.__file__)\"",
        "hooks": {
            "guard": "GRAPHSLAM_VERIF",
            "enable": "no source hooks exist: every seam (graphslam.graph.open/spsolve/time, sys.stdout, logging) is reachable from outside, so checks import /repo's working tree unchanged; GRAPHSLAM_VERIF is reserved and unused",
            "baseline_off_cmd": baseline_cmd,
            "source_commits": [],
            "add_only": True,
        },
        "engines": [
            {"name": "simopt", "path": "gsim/simopt.py", "serves_properties": [p for p in ("C06", "C12", "C15") if p in built],
             "kind_free_text": "deterministic simulation of optimizer call histories with solver/stdout/clock/disk fault injection"},
            {"name": "simio", "path": "gsim/simio.py", "serves_properties": [p for p in ("C13", "C14") if p in built],
             "kind_free_text": "deterministic simulation of .g2o stream I/O over a simulated raw device under the real CPython io stack"},
            {"name": "simchain", "path": "gsim/c11.py", "serves_properties": [p for p in ("C11",) if p in built],
             "kind_free_text": "deterministic simulation of long pose-operation histories with exact-rational reference model"},
        ],
        "checks": [],
        "not_applicable": [],
        "notes": "All checks are seeded (VERIF_SEED), run /repo's working tree in-process under gsim.World, and re-validate every violation by replaying the shrunk case in a fresh interpreter. Tiers are count-based with a wall-clock cap (skipped runs are counted in the evidence). Thorough tiers add complete fault-position sweeps. Exit 2 = harness error (never a pass). Eleven genuine defects of the pinned tree (F1-F11) were repaired by fix: commits (known_findings.json, DESIGN.md section 6); there is no known (unrepaired) finding. Sensitivity: 89 seeded mutants, 206 independently written breaking changes (seeded/, all detected) and 75 behaviour-preserving refactors (benign/, all silent), DESIGN.md section 10.",
    }
    for p in sorted(CHECKS):
        c = CHECKS[p]
        if p in built:
            m["checks"].append({
                "property_id": p,
                "quick_cmd": "./check %s --tier quick" % p,
                "thorough_cmd": "./check %s --tier thorough" % p,
                "evidence_file": "/verif/evidence/%s.json" % p,
                "replay_cmd_template": "./check replay {path}",
                "engine": c["engine"],
                "level_claimed": {"category": "exploration", "text": c["text"], "design_ref": c["design_ref"]},
                "level_note": c["note"],
                "technique": c["technique"],
            })
        else:
            m["not_applicable"].append({"property_id": p, "reason": PENDING_REASON})
    for p in sorted(NA):
        m["not_applicable"].append({"property_id": p, "reason": "not applicable to deterministic simulation: " + NA[p]})
    m["not_applicable"].sort(key=lambda x: x["property_id"])
    path = os.path.join(HERE, "MANIFEST.json")
    with open(path, "w") as f:
        json.dump(m, f, indent=1)
        f.write("\n")
    try:
        import jsonschema

        with open("/root/.vp/MANIFEST.schema.json") as f:
            jsonschema.validate(m, json.load(f))
        print("MANIFEST.json valid; checks:", [c["property_id"] for c in m["checks"]])
    except ImportError:
        print("MANIFEST.json written (jsonschema not available to validate)")


if __name__ == "__main__":
    sys.exit(main())
