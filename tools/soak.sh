#!/bin/bash
# usage: tools/soak.sh <tier> <first_seed> <last_seed> [props...]
# Runs every check at many VERIF_SEED values; prints one line per run; a non-zero exit is reported loudly.
cd "$(dirname "$0")/.."
tier=$1; a=$2; b=$3; shift 3
props=${@:-C06 C11 C12 C13 C14 C15}
bad=0
for s in $(seq $a $b); do
  for p in $props; do
    out=$(VERIF_SEED=$s ./check $p --tier $tier 2>&1 | grep -v DGEMV)
    rc=$?
    line=$(echo "$out" | grep "tier=$tier seed=" | head -1)
    if echo "$out" | grep -q "VIOLATION\|HARNESS-ERROR"; then
      bad=$((bad+1)); echo "!!! seed=$s $p"; echo "$out" | grep -v "^replay" | tail -8
      mkdir -p soak_failures; cp -r replays/$p soak_failures/${p}_seed$s 2>/dev/null
    else
      echo "ok seed=$s $line"
    fi
  done
done
echo "soak done: $bad bad runs"
