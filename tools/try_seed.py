#!/venv/bin/python
"""Confirm a seeded change (from a sub-agent) and run the owning check against it.

  tools/try_seed.py <seed_dir> [--prop CXX] [--tier quick|thorough] [--keep-as <id>] [--skip-tests]

<seed_dir> holds patch.diff, demo.py, meta.json.  Uses a scratch git worktree of /repo
(outside /repo and /verif), applies the patch there, runs the repo's test-suite, the demo
with/without the change, and `check <prop>` with GSIM_REPO pointing at the patched tree.
With --keep-as the artefacts and what was run are stored under /verif/seeded/<id>/.
"""
import json
import os
import shutil
import subprocess
import sys
import tempfile

VERIF = os.path.dirname(os.path.dirname(os.path.abspath(__file__)))
PY = "/venv/bin/python"


def sh(cmd, **kw):
    return subprocess.run(cmd, capture_output=True, text=True, **kw)


def main():
    args = sys.argv[1:]
    seed_dir = os.path.abspath(args[0])
    prop = None
    tier = "quick"
    keep = None
    skip_tests = "--skip-tests" in args
    for i, a in enumerate(args):
        if a == "--prop":
            prop = args[i + 1]
        if a == "--tier":
            tier = args[i + 1]
        if a == "--keep-as":
            keep = args[i + 1]
    meta = json.load(open(os.path.join(seed_dir, "meta.json")))
    prop = prop or meta["property"]
    patch = os.path.join(seed_dir, "patch.diff")
    demo = os.path.join(seed_dir, "demo.py")
    base = tempfile.mkdtemp(prefix="gsim-seed-", dir="/tmp")
    wt = os.path.join(base, "wt")
    out = os.path.join(base, "out")
    os.makedirs(out)
    rec = {"property": prop, "name": meta.get("name"), "ran": []}
    try:
        r = sh(["git", "-C", "/repo", "worktree", "add", "-q", "--detach", wt, os.environ.get("SEED_BASE", "HEAD")])
        if r.returncode != 0:
            print("worktree add failed", r.stderr)
            return 2
        env = dict(os.environ, PYTHONPATH=wt, PYTHONDONTWRITEBYTECODE="1", MPLBACKEND="Agg")
        # demo on the untouched tree
        r = sh([PY, demo], env=env, cwd=base, timeout=600)
        rec["demo_without_change_exit"] = r.returncode
        rec["ran"].append("PYTHONPATH=<worktree> python demo.py (untouched): exit %d" % r.returncode)
        r = sh(["git", "-C", wt, "apply", patch])
        if r.returncode != 0:
            # written against an earlier commit: try a three-way merge onto the current base
            r = sh(["git", "-C", wt, "apply", "--3way", patch])
            rec["applied_with_3way"] = r.returncode == 0
        if r.returncode != 0:
            print("patch does not apply:", r.stderr)
            rec["applies"] = False
            print(json.dumps(rec))
            return 2
        rec["applies"] = True
        r = sh([PY, demo], env=env, cwd=base, timeout=600)
        rec["demo_with_change_exit"] = r.returncode
        rec["demo_with_change_tail"] = (r.stdout + r.stderr).strip()[-400:]
        rec["ran"].append("git apply patch.diff; python demo.py: exit %d" % r.returncode)
        if not skip_tests:
            r = sh([PY, "-m", "pytest", "-q", "-p", "no:cacheprovider", "-n", "8"], env=env, cwd=wt, timeout=1800)
            rec["tests_pass_with_change"] = r.returncode == 0
            rec["tests_tail"] = r.stdout.strip().splitlines()[-1] if r.stdout.strip() else r.stderr[-200:]
            rec["ran"].append("pytest -q -n 8 (189 tests) on the patched tree: %s" % rec["tests_tail"])
        # the owning check against the patched tree
        cenv = dict(os.environ, GSIM_REPO=wt, GSIM_OUT=out, PYTHONDONTWRITEBYTECODE="1")
        r = sh([os.path.join(VERIF, "check"), prop, "--tier", tier], env=cenv, cwd=VERIF, timeout=3600)
        rec["check_exit"] = r.returncode
        lines = [ln for ln in r.stdout.splitlines() if ln.startswith(prop + ": ") or ln.startswith("VIOLATION")]
        rec["check_lines"] = [ln[:400] for ln in lines[:8]]
        rec["detected"] = r.returncode == 1 and any(ln.startswith("VIOLATION property=%s" % prop) for ln in lines)
        rec["ran"].append("GSIM_REPO=<patched worktree> ./check %s --tier %s: exit %d" % (prop, tier, r.returncode))
        if r.returncode == 2:
            print(r.stdout[-2000:], r.stderr[-2000:])
        print(json.dumps(rec, indent=1))
        if keep:
            dst = os.path.join(VERIF, "seeded", keep)
            os.makedirs(dst, exist_ok=True)
            shutil.copy(patch, os.path.join(dst, "patch.diff"))
            shutil.copy(demo, os.path.join(dst, "demo.py"))
            m = dict(meta)
            m["verified"] = rec
            m["breaks_property"] = prop
            json.dump(m, open(os.path.join(dst, "meta.json"), "w"), indent=1)
        return 0
    finally:
        sh(["git", "-C", "/repo", "worktree", "remove", "--force", wt])
        shutil.rmtree(base, ignore_errors=True)


if __name__ == "__main__":
    sys.exit(main())
