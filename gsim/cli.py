"""Command line of /verif/check."""

import argparse
import os
import sys


def engines():
    from . import c06

    table = {"C06": c06.C06}
    for name, attr in (("c12", "C12"), ("c15", "C15"), ("c13", "C13"), ("c14", "C14"), ("c11", "C11")):
        try:
            mod = __import__("gsim." + name, fromlist=[attr])
            table[attr] = getattr(mod, attr)
        except ImportError:
            pass
    return table


def main(argv):
    if not argv:
        print(__doc__)
        return 2
    table = engines()
    if argv[0] == "replay":
        from . import runner

        return runner.replay_file(table, argv[1])
    if argv[0] == "selftest":
        from . import selftest

        return selftest.main(table, argv[1:])
    ap = argparse.ArgumentParser(prog="check")
    ap.add_argument("property")
    ap.add_argument("--tier", default=None, choices=["quick", "thorough"])
    ap.add_argument("--runs", type=int, default=None)
    ap.add_argument("--budget", type=float, default=None)
    ap.add_argument("--jobs", type=int, default=None)
    ap.add_argument("--seed", type=int, default=None)
    args = ap.parse_args(argv)
    if args.property not in table:
        print("unknown property %r (have %s)" % (args.property, sorted(table)))
        return 2
    tier = args.tier or os.environ.get("VERIF_TIER") or "quick"
    if tier not in ("quick", "thorough"):
        tier = "quick"
    seed = args.seed if args.seed is not None else int(os.environ.get("VERIF_SEED", "0") or 0)
    from . import runner

    import graphslam

    print("check: property=%s tier=%s VERIF_SEED=%d graphslam=%s" % (args.property, tier, seed, os.path.dirname(graphslam.__file__)))
    sys.stdout.flush()
    try:
        return runner.run_check(table[args.property], tier, seed, jobs=args.jobs, runs=args.runs, budget_s=args.budget)
    except Exception:  # an exception of the harness itself is never a pass and never a violation
        import traceback

        traceback.print_exc()
        print("HARNESS-ERROR: uncaught exception in the runner; not a pass")
        return 2
