"""C15 -- queries are pure; optimize changes only vertex poses.

Engine ``simopt``: histories interleaving up to 50 queries with optimizer runs
(and failing exports / solves / prints) against a bitwise snapshot model
(DESIGN.md section 4, C15).
"""

import copy
import math

import numpy as np

from graphslam.edge.base_edge import BaseEdge
from graphslam.pose.base_pose import BasePose

from . import graphs
from .core import EventLog, Result
from .simopt import OptEngineBase, draw_config, finish_result, pos_bucket
from .world import World

SOLVER_FAULTS = ["nan_fill", "raise_memory", "raise_runtime"]
STDOUT_FAULTS = ["broken_pipe", "eio", "closed"]
DISK_FAULTS = ["enospc", "eio_write", "eio_close", "short_write"]

JAC_BINARY = [
    "jacobian_self_oplus_other_wrt_self", "jacobian_self_oplus_other_wrt_self_compact",
    "jacobian_self_oplus_other_wrt_other", "jacobian_self_oplus_other_wrt_other_compact",
    "jacobian_self_ominus_other_wrt_self", "jacobian_self_ominus_other_wrt_self_compact",
    "jacobian_self_ominus_other_wrt_other", "jacobian_self_ominus_other_wrt_other_compact",
]
JAC_POINT = ["jacobian_self_oplus_point_wrt_self", "jacobian_self_oplus_point_wrt_point"]
JAC_UNARY = ["jacobian_boxplus", "jacobian_inverse"]
UNARY = ["inverse", "copy", "to_array", "to_compact", "position", "orientation", "to_matrix"]

EDGE_QUERIES = ["edge_error", "edge_chi2", "edge_jacobians", "edge_cgh", "edge_numeric_jacobians", "edge_to_g2o",
                "edge_equals_self", "edge_equals_clone", "buffer_error", "buffer_jacobians", "buffer_cgh"]
VERTEX_QUERIES = ["vertex_to_g2o", "vertex_equals_self", "vertex_equals_other"]
GRAPH_QUERIES = ["graph_chi2", "graph_equals_clone", "graph_equals_perturbed", "graph_export", "graph_export", "params_to_g2o", "graph_deepcopy", "graph_pickle",
                 "twin_equals", "twin_equals", "twin_chi2", "twin_chi2", "graph_plot"]
POSE_QUERIES = ["pose_unary", "pose_binary", "pose_jac_unary", "pose_jac_binary", "pose_jac_point", "pose_boxplus",
                "pose_alias_iadd", "pose_copy_independent", "pose_views_independent", "pose_equals", "pose_held_result", "pose_held_result"]


def canon_bytes(arr, t=None):
    a = np.array(arr, dtype=np.float64, copy=True)
    if t == "SE2" and a.shape == (3,) and a[2] == math.pi:
        a[2] = -math.pi
    return a.tobytes()


def canon_value(x):
    """Canonical, comparable form of a query's return value (bitwise for floats)."""
    if isinstance(x, BaseException):
        return ("raised", type(x).__name__)
    if isinstance(x, BasePose):
        return ("pose", type(x).__name__, canon_bytes(x, graphs.type_name(x)).hex())
    if isinstance(x, np.ndarray):
        return ("nd", list(x.shape), np.ascontiguousarray(x, dtype=np.float64).tobytes().hex())
    if isinstance(x, (float, np.floating)):
        return ("f", float(x).hex() if math.isfinite(float(x)) else repr(float(x)))
    if isinstance(x, (bool, np.bool_)):
        return ("b", bool(x))
    if isinstance(x, (int, np.integer)):
        return ("i", int(x))
    if x is None or isinstance(x, str):
        return x
    if isinstance(x, (list, tuple)):
        return [canon_value(y) for y in x]
    return ("repr", repr(x))


def core_fx(x):
    from .core import fx

    return fx(x)


def build_c15(workload):
    """graphs.build plus the in-place writes the workload asks for."""
    from .core import xf

    g = graphs.build(workload)
    for spec, v in zip(workload["vertices"], g._vertices):
        if spec.get("raw_heading") is not None:
            v.pose[2] = xf(spec["raw_heading"])
    return g


def pose_pool(g):
    """Locators of every pose-valued piece of state."""
    pool = []
    for k, v in enumerate(g._vertices):
        pool.append(["v", k])
    for k, e in enumerate(g._edges):
        if isinstance(e.estimate, BasePose):
            pool.append(["est", k])
        if getattr(e, "offset", None) is not None:
            pool.append(["off", k])
    for k, _ in enumerate((getattr(g, "_g2o_params", None) or {}).values()):
        pool.append(["par", k])
    return pool


def locate(g, loc):
    if loc[0] == "v":
        return g._vertices[loc[1]].pose
    if loc[0] == "est":
        return g._edges[loc[1]].estimate
    if loc[0] == "off":
        return g._edges[loc[1]].offset
    if loc[0] == "par":
        return list(g._g2o_params.values())[loc[1]].value
    raise KeyError(loc)


def snapshot(g):
    """Bitwise model of everything the statement says must not change."""
    vidx = {id(v): k for k, v in enumerate(g._vertices)}
    vs = []
    for v in g._vertices:
        t = graphs.type_name(v.pose)
        vs.append([int(v.id), t, canon_bytes(v.pose, t).hex(), bool(v.fixed)])
    es = []
    for e in g._edges:
        est = e.estimate
        if isinstance(est, BasePose):
            est_c = ["pose", graphs.type_name(est), canon_bytes(est, graphs.type_name(est)).hex()]
        else:
            est_c = ["arr", list(np.shape(est)), np.array(est, dtype=np.float64).tobytes().hex()]
        off = getattr(e, "offset", None)
        off_c = None if off is None else [graphs.type_name(off), canon_bytes(off, graphs.type_name(off)).hex()]
        es.append([
            type(e).__name__, [int(i) for i in e.vertex_ids], list(np.shape(e.information)),
            np.array(e.information, dtype=np.float64).tobytes().hex(), est_c, off_c, getattr(e, "offset_id", None),
            [vidx.get(id(v), -1) for v in (e.vertices or [])],
        ])
    ps = []
    for key, par in (getattr(g, "_g2o_params", None) or {}).items():
        t = graphs.type_name(par.value)
        ps.append([list(key), list(par.key), t, canon_bytes(par.value, t).hex()])
    return {"v": vs, "e": es, "p": ps}


def diff_snapshots(a, b, allow_poses=False, allow_first_flag=False):
    """First difference between two snapshots, or None."""
    if len(a["v"]) != len(b["v"]) or len(a["e"]) != len(b["e"]):
        return "number of vertices/edges changed"
    for k, (x, y) in enumerate(zip(a["v"], b["v"])):
        if x[0] != y[0] or x[1] != y[1]:
            return "vertex #%d id/type changed: %r -> %r" % (k, x[:2], y[:2])
        if x[2] != y[2] and not allow_poses:
            pa = np.frombuffer(bytes.fromhex(x[2]))
            pb = np.frombuffer(bytes.fromhex(y[2]))
            return "vertex #%d (id %d, %s) pose changed: %s -> %s (delta %s)" % (k, x[0], x[1], pa.tolist(), pb.tolist(), (pb - pa).tolist())
        if x[3] != y[3] and not (allow_first_flag and k == 0 and y[3] is True):
            return "vertex #%d (id %d) fixed flag changed: %r -> %r" % (k, x[0], x[3], y[3])
    if a.get("p") != b.get("p"):
        return "the g2o parameter table changed"
    names = ["type", "vertex_ids", "information shape", "information", "estimate", "offset", "offset_id", "vertex binding"]
    for k, (x, y) in enumerate(zip(a["e"], b["e"])):
        for n, (p, q) in zip(names, zip(x, y)):
            if p != q:
                return "edge #%d (%s %s) %s changed" % (k, x[0], x[1], n)
    return None


class C15(OptEngineBase):
    PROPERTY = "C15"
    SWEEP_MENU = {"solver": SOLVER_FAULTS, "stdout": STDOUT_FAULTS, "disk": DISK_FAULTS}
    TIERS = {
        "quick": {"runs": 1800, "budget_s": 75, "chunk": 8},
        "thorough": {"runs": 45000, "budget_s": 900, "chunk": 16},
    }
    RULE = (
        "Each run = one seeded case: swarm config, a pose graph of 2..10 vertices mixing analytic edges, numerical-Jacobian "
        "twins, n-ary custom edges and self-loop edges, and a history of up to 50 queries interleaved with 1..4 optimize() calls; "
        "0..2 faults (device errors during graph export queries, solver NaN-fill/raise and stdout failures during optimize) placed "
        "at (op, seam, event) from a dry run. Oracle: a bitwise snapshot (vertex poses, estimates, information, offsets, ids, fixed "
        "flags, vertex bindings) must be identical after every query (each executed twice: identical return values); optimize may "
        "change only vertex poses and, iff fix_first_pose, the first flag. Non-trivial = >=5 queries and >=1 optimize with >=1 "
        "snapshot comparison; distinct = distinct signature (family, topology, tuple of query kinds, optimize outcomes, faults)."
    )
    ASSUMPTIONS = [
        "+pi and -pi are canonicalised in SE(2) angles (observation O2); everything else bitwise",
        "exceptions raised by *user* edge code inside the perturb/restore window are not injected (outside the statement's quantifier)",
        "queries that legitimately raise (NotImplementedError for types .g2o cannot express, injected device errors) must still leave the snapshot identical",
    ]
    PROBES = [
        "numeric_jacobian_on_fixed_vertex", "same_vertex_twice_in_edge", "nary_edge", "export_failed", "export_ok", "optimize_failed",
        "alias_test", "returned_buffer_test", "history_len_50", "copy_test", "query_raised_naturally", "optimize_ok", "raw_heading_written_in_place", "held_result_test", "question_asked_again_later", "graph_plotted",
    ]

    # ------------------------------------------------------------------ generate
    def generate(self, rng, tier, index):
        config = draw_config(rng)
        workload, meta = graphs.gen_opt_workload(rng, {"self_loops": True, "max_vertices": 10, "allow_numeric": True, "alias_poses": 0.12, "asym_information": 0.15, "rank_deficient_information": 0.06, "satellite_pose": 0.15})
        # more numerical twins here: this engine is about the perturb/restore protocol
        for e in workload["edges"]:
            if e["kind"] in ("odometry", "landmark", "prior") and rng.random() < 0.3:
                e["kind"] = "numeric_" + e["kind"]
        verts = workload["vertices"]
        ids = [v["id"] for v in verts]
        for v in verts:
            v["fixed"] = rng.random() < 0.25
        # a parameter table for the 3-D landmark offsets (as a loaded graph has), so that exports can succeed
        if rng.random() < 0.7:
            table = {}
            for e in workload["edges"]:
                off = e.get("offset")
                if off is not None and off["t"] == "SE3":
                    if e.get("offset_id") is None:
                        e["offset_id"] = rng.choice([0, 1, 7])
                    if e["offset_id"] in table:
                        e["offset"] = copy.deepcopy(table[e["offset_id"]])
                    else:
                        table[e["offset_id"]] = copy.deepcopy(off)
            if table:
                workload["params"] = [{"key": ["PARAMS_SE3OFFSET", k], "v": v} for k, v in table.items()]
                meta["params"] = len(table)
                if rng.random() < 0.25:
                    # a table entry that differs from the edges' offset in the 9th digit (the export must be refused; it
                    # must not "repair" the edge by adopting the table's pose)
                    from .core import fx as _fx, xf as _xf

                    ent = rng.choice(workload["params"])
                    vals = [_xf(x) for x in ent["v"]["v"]]
                    vals[0] = vals[0] + 1e-9 * max(1.0, abs(vals[0]))
                    ent["v"] = {"t": "SE3", "v": [_fx(x) for x in vals]}
                    meta["near_equal_param"] = True
        # some SE(2) headings are written in place by the owner of the graph (v.pose[2] = theta): in range, but not a
        # value the constructor's wrap would have produced
        if rng.random() < 0.25:
            for v in verts:
                if v["pose"]["t"] == "SE2" and rng.random() < 0.5:
                    v["raw_heading"] = core_fx(rng.choice([rng.uniform(-3.1, 3.1), 0.1, 0.3, 0.7, -2.5, 1e-10, 1e-17, 3.0]))
                    meta["raw_heading"] = True
        if rng.random() < 0.15:
            # coordinates that are exactly -0.0 (a legal double; "cleaning it up" changes the bits)
            from .core import fx as _fx2

            for v in verts:
                if rng.random() < 0.4:
                    k = rng.randrange(2)
                    v["pose"]["v"][k] = _fx2(-0.0)
            meta["negative_zero"] = True
        g = build_c15(workload)
        pool = pose_pool(g)
        ne = len(workload["edges"])
        nv = len(verts)
        n_opt = rng.choice([1, 1, 2, 2, 3, 4])
        n_q = rng.choice([5, 10, 20, 30, 50, 50]) if tier == "thorough" else rng.choice([5, 10, 15, 25, 40, 50])
        ops = []
        opt_positions = sorted(rng.sample(range(n_q + n_opt), n_opt))
        for pos in range(n_q + n_opt):
            if pos in opt_positions:
                ops.append({
                    "op": "optimize", "max_iter": rng.randint(1, 5), "tol": rng.choice([0.0, 1e-4, 1e-2]),
                    "fix_first_pose": rng.random() < 0.5, "verbose": rng.random() < 0.4,
                    "stdout": {"kind": rng.choice(["memory", "memory", "none"])},
                })
                continue
            fam = rng.choices(["edge", "vertex", "graph", "pose"], weights=[4 if ne else 0, 1.5, 1.5, 4])[0]
            if fam == "edge":
                ops.append({"op": "q", "q": rng.choice(EDGE_QUERIES), "e": rng.randrange(ne)})
            elif fam == "vertex":
                ops.append({"op": "q", "q": rng.choice(VERTEX_QUERIES), "v": rng.randrange(nv), "v2": rng.randrange(nv)})
            elif fam == "graph":
                ops.append({"op": "q", "q": rng.choice(GRAPH_QUERIES), "path": "/simfs/q%d.g2o" % rng.randrange(3)})
            else:
                q = rng.choice(POSE_QUERIES)
                o = {"op": "q", "q": q, "a": rng.choice(pool), "b": rng.choice(pool)}
                if q == "pose_unary":
                    o["m"] = rng.choice(UNARY)
                elif q == "pose_binary":
                    o["m"] = rng.choice(["add", "sub"])
                elif q == "pose_jac_unary":
                    o["m"] = rng.choice(JAC_UNARY)
                elif q == "pose_jac_binary":
                    o["m"] = rng.choice(JAC_BINARY)
                elif q == "pose_jac_point":
                    o["m"] = rng.choice(JAC_POINT)
                if q in ("pose_boxplus", "pose_alias_iadd"):
                    o["delta"] = [rng.gauss(0, 0.3) for _ in range(6)]
                    o["big_step"] = rng.random() < 0.4
                if q == "pose_held_result":
                    o["m"] = rng.choice(JAC_UNARY + JAC_UNARY + JAC_BINARY + JAC_POINT + ["to_array", "to_compact", "position", "to_matrix", "inverse", "copy"])
                ops.append(o)
        # ask an earlier question again later (no optimize in between): the answer must not have changed
        qi = [k for k, o in enumerate(ops) if o["op"] == "q" and o["q"] not in ("graph_export", "graph_deepcopy", "graph_pickle")]
        for _ in range(min(6, len(qi) // 3)):
            j = rng.choice(qi)
            later = [k for k in range(j + 1, len(ops) + 1) if all(o["op"] != "optimize" for o in ops[j:k])]
            if later:
                at = rng.choice(later)
                ops.insert(at, dict(ops[j], again_of=j))
                qi = [k if k < at else k + 1 for k in qi]
        # again_of refers to positions before the insertions; re-resolve by identity of content: store the question text
        for o in ops:
            if "again_of" in o:
                o["again_of"] = True
        seen_plot = False
        for o in ops:
            if o.get("q") == "graph_plot":
                if seen_plot or rng.random() < 0.5:
                    o["q"] = "graph_chi2"
                seen_plot = True
        meta["n_queries"] = n_q
        case = {"config": config, "workload": workload, "meta": meta, "ops": ops, "faults": []}
        if rng.random() < 0.55:
            dry = self.execute(copy.deepcopy(case), dry=True)
            menu = {"solver": SOLVER_FAULTS, "stdout": STDOUT_FAULTS, "disk": DISK_FAULTS}
            faults = self.plan_faults(rng, case, dry.counts, menu, max_faults=2)
            for f in faults:
                if f["kind"] in ("enospc", "eio_write"):
                    f["sticky"] = rng.random() < 0.5
                if f["kind"] == "short_write":
                    f["n"] = rng.randint(1, 5)
            case["faults"] = faults
        return case

    # ------------------------------------------------------------------ queries
    def run_query(self, g, op, res):
        q = op["q"]
        if q.startswith("edge") or q.startswith("buffer"):
            e = g._edges[op["e"]]
            if len(e.vertices) >= 3:
                res.probe("nary_edge")
            if len(e.vertices) == 2 and e.vertices[0] is e.vertices[1]:
                res.probe("same_vertex_twice_in_edge")
            if q == "edge_error":
                return e.calc_error()
            if q == "edge_chi2":
                return e.calc_chi2()
            if q == "edge_jacobians":
                if type(e).__name__.startswith("Numeric") or type(e).calc_jacobians is BaseEdge.calc_jacobians:
                    if any(v.fixed for v in e.vertices):
                        res.probe("numeric_jacobian_on_fixed_vertex")
                return e.calc_jacobians()
            if q == "edge_cgh":
                return e.calc_chi2_gradient_hessian()
            if q == "edge_numeric_jacobians":
                if any(v.fixed for v in e.vertices):
                    res.probe("numeric_jacobian_on_fixed_vertex")
                return BaseEdge.calc_jacobians(e)
            if q == "edge_to_g2o":
                return e.to_g2o()
            if q == "edge_equals_self":
                return e.equals(e)
            if q == "edge_equals_clone":
                other = graphs.edge_from_spec(graphs.edge_to_spec(e))
                other.vertices = e.vertices
                return e.equals(other)
            # returned-buffer tests: scribble over what was returned, ask again
            res.probe("returned_buffer_test")
            if q == "buffer_error":
                first = e.calc_error()
                keep = np.array(first, copy=True)
                if isinstance(first, np.ndarray) and first.flags.writeable:
                    first[...] = 777.0
                return [keep, e.calc_error()]
            if q == "buffer_jacobians":
                first = e.calc_jacobians()
                keep = [np.array(j, copy=True) for j in first]
                for j in first:
                    if isinstance(j, np.ndarray) and j.flags.writeable:
                        j[...] = -555.0
                return [keep, e.calc_jacobians()]
            if q == "buffer_cgh":
                first = e.calc_chi2_gradient_hessian()
                keep = canon_value(first)
                for _, contrib in first[1]:
                    if isinstance(contrib, np.ndarray) and contrib.flags.writeable:
                        contrib[...] = 333.0
                for _, contrib in first[2]:
                    if isinstance(contrib, np.ndarray) and contrib.flags.writeable:
                        contrib[...] = 333.0
                return [keep, canon_value(e.calc_chi2_gradient_hessian())]
        if q == "vertex_to_g2o":
            return g._vertices[op["v"]].to_g2o()
        if q == "vertex_equals_self":
            v = g._vertices[op["v"]]
            return v.equals(v)
        if q == "vertex_equals_other":
            return g._vertices[op["v"]].equals(g._vertices[op["v2"]])
        if q == "graph_chi2":
            return g.calc_chi2()
        if q == "graph_equals_clone":
            return g.equals(graphs.clone(g))
        if q == "graph_equals_perturbed":
            spec = graphs.spec_of_graph(g)
            other = graphs.build(spec)
            other._vertices[0].pose = other._vertices[0].pose + np.full(other._vertices[0].pose.COMPACT_DIMENSIONALITY, 0.01)
            return [g.equals(other), other.equals(g)]
        if q == "graph_export":
            g.to_g2o(op["path"])
            return "exported"
        if q == "graph_plot":
            # drawing the graph is a query too (matplotlib's Agg backend; show() is a no-op here)
            import graphslam.graph as _gg

            if getattr(_gg, "plt", None) is None:
                return "no-matplotlib"
            saved_show = _gg.plt.show
            _gg.plt.show = lambda *a, **k: None
            try:
                g.plot()
            finally:
                _gg.plt.show = saved_show
                _gg.plt.close("all")
            res.probe("graph_plotted")
            return "plotted"
        if q == "twin_equals":
            return [g.equals(self._twin), self._twin.equals(g)]
        if q == "twin_chi2":
            return float(self._twin.calc_chi2()) if self._twin._edges else 0.0
        if q in ("graph_deepcopy", "graph_pickle"):
            import pickle

            h = copy.deepcopy(g) if q == "graph_deepcopy" else pickle.loads(pickle.dumps(g))
            same = snapshot(h) == snapshot(g)
            # the copy is independent: optimizing it must not touch the original (checked by the snapshot after the query)
            try:
                h.optimize(max_iter=1, verbose=False, fix_first_pose=False)
            except Exception:  # noqa -- singular copies etc. are not this query's business
                pass
            return [bool(same), float(g.calc_chi2()) if g._edges else 0.0]
        if q == "params_to_g2o":
            return [par.to_g2o() for par in (getattr(g, "_g2o_params", None) or {}).values()]
        a = locate(g, op["a"])
        b = locate(g, op["b"])
        ta = graphs.type_name(a)
        tb = graphs.type_name(b)
        if q == "pose_unary":
            m = op["m"]
            if m == "to_matrix" and not hasattr(a, "to_matrix"):
                m = "to_array"
            attr = getattr(a, m)
            return attr() if callable(attr) else attr
        if q == "pose_binary":
            if op["m"] == "add":
                if ta == tb or (ta in ("SE2", "SE3") and tb == graphs.POINT_OF[ta]):
                    return a + b
                return "incompatible"
            if ta == tb:
                return a - b
            return "incompatible"
        if q == "pose_jac_unary":
            return getattr(a, op["m"])()
        if q == "pose_jac_binary":
            if ta != tb:
                return "incompatible"
            return getattr(a, op["m"])(b)
        if q == "pose_jac_point":
            if tb != graphs.POINT_OF[ta]:
                return "incompatible"
            return getattr(a, op["m"])(b)
        if q == "pose_equals":
            if ta != tb:
                return "incompatible"
            return [a.equals(b), a.equals(a)]
        if q == "pose_held_result":
            # the caller keeps what a method returned for pose a, calls the same method for another pose, then looks again
            m = op["m"]

            def call(p, other):
                if m == "to_matrix" and not hasattr(p, "to_matrix"):
                    return p.to_array()
                attr = getattr(p, m)
                if not callable(attr):
                    return attr
                if m in JAC_BINARY:
                    return attr(other)
                if m in JAC_POINT:
                    return attr(other)
                return attr()

            def partner(ploc):
                # chosen by position in the pool, never by object identity (identity changes when a numerical
                # Jacobian re-binds a pose, which would make the question itself depend on the history)
                t = graphs.type_name(locate(g, ploc))
                want = graphs.POINT_OF[t] if m in JAC_POINT else t
                for loc in pose_pool(g):
                    if loc != ploc and graphs.type_name(locate(g, loc)) == want:
                        return locate(g, loc)
                return None

            oa = partner(op["a"])
            if oa is None and (m in JAC_BINARY or m in JAC_POINT):
                return "incompatible"
            first = call(a, oa)
            keep = canon_value(first)
            for loc in pose_pool(g):
                if loc == op["a"] or graphs.type_name(locate(g, loc)) != ta:
                    continue
                o2 = partner(loc)
                if o2 is None and (m in JAC_BINARY or m in JAC_POINT):
                    continue
                call(locate(g, loc), o2)
                break
            res.probe("held_result_test")
            return [keep, canon_value(first)]
        d = a.COMPACT_DIMENSIONALITY
        if q == "pose_boxplus":
            step = np.array(op["delta"][:d], dtype=np.float64)
            if op.get("big_step") and d == 6:
                step[3:] *= 6.0  # a rotation step of norm > 1 (the identity-rotation branch)
            keep_step = step.copy()
            out = a + step
            return [out, bool(step.tobytes() == keep_step.tobytes())]
        if q == "pose_alias_iadd":
            res.probe("alias_test")
            r = a
            r += np.array(op["delta"][:d], dtype=np.float64)
            return [r, r is a]
        if q == "pose_copy_independent":
            res.probe("copy_test")
            c = a.copy()
            same = c is a or np.shares_memory(c, a)
            c[0] = c[0] + 1.0
            return [bool(same), c]
        if q == "pose_views_independent":
            res.probe("copy_test")
            outs = []
            for m in ("to_array", "to_compact", "position", "orientation"):
                attr = getattr(a, m)
                val = attr() if callable(attr) else attr
                shared = isinstance(val, np.ndarray) and np.shares_memory(val, a)
                if isinstance(val, np.ndarray) and val.ndim and val.flags.writeable:
                    val[...] = 999.0
                outs.append(bool(shared))
            return outs
        raise ValueError("unknown query %r" % q)

    # ------------------------------------------------------------------ execute
    def execute(self, case, dry=False):
        res = Result()
        log = EventLog()
        ops = case["ops"]
        meta = case.get("meta", {})
        sig_ops = []
        n_q = 0
        n_opt_ok = 0
        with World(case.get("config"), None if dry else case.get("faults"), log) as w:
            g = build_c15(case["workload"])
            # a second, persistent graph that equals g within the default tolerance (but not bitwise)
            self._twin = build_c15(case["workload"])
            for tv in self._twin._vertices[:1]:
                tv.pose = tv.pose + np.full(tv.pose.COMPACT_DIMENSIONALITY, 3e-7)
            answers = {}  # question -> canonical answer since the last optimize
            snap = snapshot(g)
            if not dry and meta.get("raw_heading"):
                res.probe("raw_heading_written_in_place")
            for i, op in enumerate(ops):
                w.begin_op(i)
                if op["op"] == "optimize":
                    w.set_stdout(op.get("stdout") or {"kind": "memory"})
                    raised = None
                    try:
                        g.optimize(tol=op["tol"], max_iter=op["max_iter"], fix_first_pose=op["fix_first_pose"], verbose=op["verbose"])
                    except Exception as e:  # noqa
                        raised = e
                    oc = "optimize:" + ("raised:" + type(raised).__name__ if raised is not None else "ok")
                    sig_ops.append(oc)
                    log.note("optimize", oc)
                    if dry:
                        continue
                    res.outcome(oc)
                    res.probe("optimize_failed" if raised is not None else "optimize_ok")
                    if raised is None:
                        n_opt_ok += 1
                    now = snapshot(g)
                    res.n_checks += 1
                    d = diff_snapshots(snap, now, allow_poses=True, allow_first_flag=op["fix_first_pose"])
                    if d:
                        res.violate("C15:optimize-frame", "op %d optimize(%s) changed more than vertex poses: %s" % (i, oc, d))
                        break
                    if op["fix_first_pose"] and raised is None and not now["v"][0][3]:
                        res.violate("C15:optimize-frame", "op %d optimize(fix_first_pose=True) left the first vertex unfixed" % i)
                        break
                    snap = now
                    answers = {}
                    # the twin follows (so that it stays "equal within tolerance")
                    self._twin = graphs.clone(g)
                    for tv in self._twin._vertices[:1]:
                        tv.pose = tv.pose + np.full(tv.pose.COMPACT_DIMENSIONALITY, 3e-7)
                    continue
                # a query, executed twice
                n_q += 1
                vals = []
                for rep in range(2):
                    if rep == 1:
                        # the repeat runs outside the fault-addressable namespace: same call, benign environment
                        w.log.op_index = -1000 - i
                    try:
                        val = self.run_query(g, op, res if (rep == 0 and not dry) else Result())
                    except Exception as e:  # noqa
                        val = e
                    vals.append(val)
                    if dry:
                        break
                    now = snapshot(g)
                    res.n_checks += 1
                    d = diff_snapshots(snap, now)
                    if d:
                        res.violate("C15:query-mutated:" + op["q"] + (":" + op["m"] if "m" in op else ""),
                                    "op %d query %s (%s execution): %s" % (i, {k: v for k, v in op.items() if k != "op"}, "first" if rep == 0 else "second", d))
                        break
                w.log.op_index = i
                if dry:
                    sig_ops.append(op["q"])
                    continue
                if res.violations:
                    break
                c0 = canon_value(vals[0])
                c1 = canon_value(vals[1])
                log.note("q", [op["q"], core_hash(c0)])
                sig_ops.append(op["q"] + ("!" if isinstance(vals[0], BaseException) else ""))
                if isinstance(vals[0], BaseException):
                    injected = op["q"] == "graph_export" and isinstance(vals[0], OSError)
                    if injected:
                        res.probe("export_failed")
                    elif isinstance(vals[0], (NotImplementedError,)):
                        res.probe("query_raised_naturally")
                    else:
                        res.outcome("query-raised:" + type(vals[0]).__name__)
                    res.outcome("query_raised")
                else:
                    res.outcome("query_ok")
                    if op["q"] == "graph_export":
                        res.probe("export_ok")
                injected_first = isinstance(vals[0], OSError) and op["q"] == "graph_export"
                qkey = core_hash({k: v for k, v in op.items() if k not in ("op", "again_of")})
                if not injected_first and not isinstance(vals[0], BaseException):
                    if qkey in answers:
                        res.n_checks += 1
                        res.probe("question_asked_again_later")
                        if answers[qkey] != c0:
                            res.violate("C15:repeat-differs-later:" + op["q"],
                                        "op %d query %s: the same question was asked earlier in this history (no optimize in between) and answered %s; now %s"
                                        % (i, {k: v for k, v in op.items() if k not in ("op", "again_of")}, short(answers[qkey]), short(c0)))
                            break
                    else:
                        answers[qkey] = c0
                res.n_checks += 1
                if c0 != c1 and not injected_first:
                    res.violate("C15:repeat-differs:" + op["q"] + (":" + op["m"] if "m" in op else ""),
                                "op %d query %s returned different values on two consecutive calls: %s vs %s"
                                % (i, {k: v for k, v in op.items() if k != "op"}, short(c0), short(c1)))
                    break
                # semantic expectations of the probe queries
                bad = None
                if op["q"] == "pose_boxplus" and not isinstance(vals[0], BaseException) and isinstance(vals[0], list) and vals[0][1] is not True:
                    bad = "p + step changed the caller's step array (pose operators never mutate their operands)"
                if op["q"] == "pose_alias_iadd" and not isinstance(vals[0], BaseException) and vals[0][1] is True:
                    bad = "r = p; r += delta returned the operand itself (in-place update of a shared pose)"
                if op["q"] == "pose_copy_independent" and not isinstance(vals[0], BaseException) and vals[0][0] is True:
                    bad = "copy() shares memory with the original"
                if op["q"] == "pose_views_independent" and not isinstance(vals[0], BaseException) and any(vals[0]):
                    bad = "to_array/to_compact/position/orientation returned a view of the pose: %r" % (vals[0],)
                if op["q"] in ("graph_deepcopy", "graph_pickle") and not isinstance(vals[0], BaseException) and vals[0][0] is not True:
                    bad = "copy.deepcopy / pickle round trip of the graph does not reproduce its state bit for bit"
                if op["q"] == "pose_held_result" and not isinstance(vals[0], BaseException) and isinstance(vals[0], list):
                    if vals[0][0] != vals[0][1]:
                        bad = "the value %s() returned for one pose changed when the same method was called for another pose (a shared work array was handed out)" % op["m"]
                if op["q"].startswith("buffer_") and not isinstance(vals[0], BaseException):
                    if canon_value(vals[0][0]) != canon_value(vals[0][1]):
                        bad = "value returned after scribbling over the previously returned buffer differs (a cached/shared buffer was handed out)"
                if bad:
                    res.violate("C15:aliasing:" + op["q"], "op %d query %s: %s" % (i, {k: v for k, v in op.items() if k != "op"}, bad))
                    break
            if dry:
                res.counts = w.op_counts()
                res.counts["__actions__"] = [list(a) for a in w.disk.actions]
                return res
            if n_q >= 50:
                res.probe("history_len_50")
            fsig = ["%s:%s@%s" % (f["seam"], f["kind"], pos_bucket(f["event"], f.get("of", 0))) for f in case.get("faults", [])]
            sig = [meta.get("family"), meta.get("topology"), sig_ops, sorted(fsig)]
            res.faults_planned = len(case.get("faults", []))
            res.nontrivial = n_q >= 5 and any(s.startswith("optimize") for s in sig_ops) and res.n_checks > 0
            finish_result(res, w, log, sig)
        return res

    def extra_shrink_moves(self, case):
        return []


def core_hash(c):
    from .core import sig_hash

    return sig_hash(c)


def short(c, n=160):
    s = repr(c)
    return s if len(s) <= n else s[:n] + "..."
