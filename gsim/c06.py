"""C06 -- fixed vertices never move; free vertices solve the reduced problem.

Engine ``simopt``: call histories (set_fixed / query / optimize) under solver,
stdout and clock faults, checked against a fixed-set model and an independent
reduced Gauss-Newton step (DESIGN.md section 4, C06).
"""

import copy
import math

import numpy as np

from . import graphs
from .core import EventLog, Result
from .simopt import (OptEngineBase, all_finite, draw_config, finish_result, pos_bucket, poses_snapshot,
                     reference_reduced_step)
from .world import World

EPS = float(np.finfo(float).eps)
I1_REL = 256 * EPS

SOLVER_FAULTS = ["nan_fill", "nan_fill", "raise_memory", "raise_runtime", "raise_rankwarning", "stall"]
STDOUT_FAULTS = ["broken_pipe", "eio", "closed"]
CLOCK_FAULTS = ["jump_fwd", "jump_back"]
RAISING = {"raise_memory", "raise_runtime", "raise_rankwarning", "broken_pipe", "eio", "closed"}


class C06(OptEngineBase):
    PROPERTY = "C06"
    SWEEP_MENU = {"solver": SOLVER_FAULTS, "stdout": STDOUT_FAULTS}
    TIERS = {
        "quick": {"runs": 2600, "budget_s": 75, "chunk": 16},
        "thorough": {"runs": 60000, "budget_s": 900, "chunk": 32},
    }
    RULE = (
        "Each run = one seeded case: swarm config (pose family, topology, ids, information class, init-noise class, "
        "clock/stdout/logger personality), a pose graph of 2..12 vertices, an initial fixed set drawn from classes "
        "{none, first, several, all, landmarks, isolated, one-per-component}, a history of 1..8 ops "
        "(set_fixed / query / optimize with max_iter 1..20, tol, fix_first_pose, verbose) and 0..2 faults placed at "
        "(op, seam, event index) taken from a fault-free dry run of the same case. Oracles after every op: I1 fixed "
        "poses unchanged, I2 fixed flags == fixed-set model, I3 single-step result == independent dense reduced "
        "Gauss-Newton step when cond(H_ff)<1e8 and no fault fired. A run is non-trivial if it performed >=1 optimize "
        "with >=1 fixed vertex and >=1 oracle comparison against a non-identity expectation; distinct = distinct "
        "signature (family, topology, op kinds, fixed-set class, faults as seam:kind@first|middle|last, outcome class per op)."
    )
    ASSUMPTIONS = [
        "edges' calc_error/calc_jacobians are trusted when assembling the reference reduced system (C01/C02 are separate, unclaimed properties)",
        "numpy.linalg.solve/cond on the dense reduced system is the reference; I3 asserted only when cond(H_ff) < 1e8",
        "SE(2) angles are compared modulo 2*pi; +pi == -pi",
        "exceptions thrown by user edge code and asynchronous interrupts are not injected (not outcomes listed by the statement)",
    ]
    PROBES = [
        "fixed_isolated", "all_fixed", "none_fixed", "fixed_landmark", "unfix_between_calls",
        "first_vertex_not_min_id", "nan_outcome", "diverged_outcome", "singular_natural", "solver_raise_fired",
        "i3_checked", "i3_skipped_illcond", "stdout_fail_fired", "multi_component", "singular_raised_as_error", "i3_trajectory_step", "aliased_pose_objects", "fixed_satellite_pose", "fixed_vertex_moved_by_user_between_calls", "graph_pickled_or_deepcopied_between_calls", "multi_iteration_end_state_checked", "integer_fixed_flags", "solver_raised_naturally", "graph_rebuilt_over_same_objects",
    ]

    # ------------------------------------------------------------------ generate
    def generate(self, rng, tier, index):
        config = draw_config(rng)
        workload, meta = graphs.gen_opt_workload(rng, {"self_loops": False, "alias_poses": 0.12, "satellite_pose": 0.3, "rank_deficient_information": 0.04, "nonunit_quats": 0.05})
        verts = workload["vertices"]
        ids = [v["id"] for v in verts]
        comps = graphs.components(workload)
        cls = rng.choice(["none", "first", "several", "all", "landmarks", "isolated", "per_component", "per_component", "per_component"])
        fixed = set()
        if cls == "first":
            fixed.add(ids[0])
        elif cls == "several":
            fixed.update(rng.sample(ids, rng.randint(1, max(1, len(ids) // 2))))
        elif cls == "all":
            fixed.update(ids)
        elif cls == "landmarks":
            fixed.update(v["id"] for v in verts if v.get("role") == "landmark")
            if not fixed:
                fixed.add(rng.choice(ids))
        elif cls == "isolated":
            fixed.update(v["id"] for v in verts if v.get("role") == "isolated")
            fixed.add(ids[0])
        elif cls == "per_component":
            for c in comps:
                fixed.add(rng.choice(c))
            if rng.random() < 0.3:
                fixed.update(rng.sample(ids, rng.randint(0, len(ids) // 3)))
        for v in verts:
            if v.get("role") == "satellite" and rng.random() < 0.7:
                fixed.add(v["id"])  # a satellite is only determined when it is held fixed
        for v in verts:
            v["fixed"] = v["id"] in fixed
        meta["fixed_class"] = cls
        if rng.random() < 0.15:
            meta["int_flags"] = True  # flags as they come out of a CSV column: 0 / 1 instead of False / True
        n_ops = rng.choice([1, 1, 2, 2, 3, 4, 5, 6, 8])
        if rng.random() < 0.02 and len(verts) <= 8:
            n_ops = rng.randint(12, 24)  # a long session: something that only happens on the N-th call
            meta["long_history"] = True
        ops = []
        for k in range(n_ops):
            r = rng.random()
            if k == n_ops - 1 and not any(o["op"] == "optimize" for o in ops):
                r = 1.0
            if r < 0.10:
                # the user re-positions a vertex between calls (fixed or free): v.pose = v.pose [+] delta
                target = rng.choice(sorted(fixed)) if fixed and rng.random() < 0.6 else rng.choice(ids)  # often a fixed one
                ops.append({"op": "move_vertex", "v": target, "delta": [rng.gauss(0, 0.5) for _ in range(6)], "inplace": rng.random() < 0.5})
            elif r < 0.115:
                # a new Graph is built over the same vertex and edge objects, in another vertex order (sliding window,
                # re-indexing); the old one is dropped
                perm = list(range(len(ids)))
                rng.shuffle(perm)
                ops.append({"op": "regraph", "perm": perm})
            elif r < 0.13:
                # the graph goes through pickle / deepcopy between calls (checkpoint, multiprocessing)
                ops.append({"op": "recreate", "how": rng.choice(["pickle", "deepcopy"])})
            elif r < 0.25:
                ops.append({"op": "set_fixed", "v": rng.choice(ids), "value": rng.random() < 0.6})
            elif r < 0.35:
                ops.append({"op": "query"})
            else:
                single = rng.random() < 0.45
                ops.append({
                    "op": "optimize",
                    "max_iter": 1 if single else rng.randint(2, 20),
                    "tol": rng.choice([0.0, 1e-12, 1e-8, 1e-4, 1e-4, 1e-2, 1e-1]),
                    "fix_first_pose": rng.random() < 0.5,
                    "verbose": rng.random() < 0.4,
                    "stdout": {"kind": rng.choice(["memory", "memory", "none", "slow", "ascii"])},
                })
                if not single and rng.random() < 0.35:
                    ops[-1]["shadow"] = True
                if rng.random() < 0.15:
                    ops[-1]["call_style"] = "positional"  # optimize(tol, max_iter, fix_first_pose, verbose), the documented order
                if rng.random() < 0.12:
                    ops[-1]["flag_type"] = rng.choice(["np_bool", "int"])  # fix_first_pose=np.True_ / 1 / 0
                if rng.random() < 0.08:
                    ops[-1].update({"use_defaults": True, "tol": 1e-4, "max_iter": 20, "fix_first_pose": True, "verbose": True})
        case = {"config": config, "workload": workload, "meta": meta, "ops": ops, "faults": []}
        if rng.random() < 0.6:
            dry = self.execute(copy.deepcopy(case), dry=True)
            menu = {"solver": SOLVER_FAULTS, "stdout": STDOUT_FAULTS, "clock": CLOCK_FAULTS}
            case["faults"] = self.plan_faults(rng, case, dry.counts, menu, max_faults=2)
        return case

    # ------------------------------------------------------------------ execute
    def execute(self, case, dry=False):
        res = Result()
        log = EventLog()
        ops = case["ops"]
        meta = case.get("meta", {})
        sig_ops = []
        nontrivial_opt = False
        with World(case.get("config"), None if dry else case.get("faults"), log) as w:
            g = graphs.build(case["workload"])
            verts = g._vertices
            if meta.get("int_flags"):
                for v in verts:
                    v.fixed = int(bool(v.fixed))
                if not dry:
                    res.probe("integer_fixed_flags")
            by_id = {v.id: v for v in verts}
            types = [graphs.type_name(v.pose) for v in verts]
            model = {v.id for v in verts if v.fixed}
            if not dry:
                if len(graphs.components(case["workload"])) > 1:
                    res.probe("multi_component")
                if verts and verts[0].id != min(v.id for v in verts):
                    res.probe("first_vertex_not_min_id")
                if meta.get("aliased_pose"):
                    res.probe("aliased_pose_objects")
                if any(sv.get("role") == "satellite" and sv.get("fixed") for sv in case["workload"]["vertices"]):
                    res.probe("fixed_satellite_pose")
            optimized_before = False
            for i, op in enumerate(ops):
                w.begin_op(i)
                kind = op["op"]
                if kind == "set_fixed":
                    v = by_id.get(op["v"])
                    if v is None:
                        sig_ops.append("set_fixed:skip")
                        continue
                    v.fixed = int(bool(op["value"])) if meta.get("int_flags") else bool(op["value"])
                    if op["value"]:
                        model.add(v.id)
                    else:
                        if v.id in model and optimized_before:
                            res.probe("unfix_between_calls")
                        model.discard(v.id)
                    sig_ops.append("set_fixed")
                    log.note("set_fixed", [v.id, bool(op["value"])])
                elif kind == "regraph":
                    from graphslam.graph import Graph as _Graph

                    perm = [k for k in op["perm"] if k < len(verts)]
                    if sorted(perm) == list(range(len(verts))):
                        g = _Graph(g._edges, [verts[k] for k in perm])
                        verts = g._vertices
                        by_id = {v.id: v for v in verts}
                        types = [graphs.type_name(v.pose) for v in verts]
                        if not dry:
                            res.probe("graph_rebuilt_over_same_objects")
                    sig_ops.append("regraph")
                    log.note("regraph", len(perm))
                elif kind == "recreate":
                    import pickle

                    g = pickle.loads(pickle.dumps(g)) if op["how"] == "pickle" else copy.deepcopy(g)
                    verts = g._vertices
                    by_id = {v.id: v for v in verts}
                    if not dry:
                        res.probe("graph_pickled_or_deepcopied_between_calls")
                        # the copy carries the same visible state, fixed flags included
                        for v in verts:
                            res.n_checks += 1
                            if bool(v.fixed) != (v.id in model):
                                res.violate("C06:fixed-flag", "after a %s round trip vertex id %d has fixed=%r, the fixed-set model says %r" % (op["how"], v.id, v.fixed, v.id in model))
                                break
                        if res.violations:
                            break
                    sig_ops.append("recreate:" + op["how"])
                    log.note("recreate", op["how"])
                elif kind == "move_vertex":
                    v = by_id.get(op["v"])
                    if v is None:
                        sig_ops.append("move_vertex:skip")
                        continue
                    d = np.array(op["delta"][: v.pose.COMPACT_DIMENSIONALITY], dtype=np.float64)
                    if v.pose.COMPACT_DIMENSIONALITY == 6:
                        d[3:] *= 0.3
                    if op.get("inplace"):
                        v.pose[:] = v.pose + d  # same object, new numbers
                    else:
                        v.pose = v.pose + d
                    if not dry and v.id in model and optimized_before:
                        res.probe("fixed_vertex_moved_by_user_between_calls")
                    sig_ops.append("move_vertex")
                    log.note("move_vertex", [v.id])
                elif kind == "query":
                    c = g.calc_chi2()
                    log.note("query", repr(float(c)))
                    sig_ops.append("query")
                elif kind == "optimize":
                    optimized_before = True
                    w.set_stdout(op.get("stdout") or {"kind": "memory"})
                    pre_model = set(model)
                    if op["fix_first_pose"] and verts:
                        model.add(verts[0].id)
                    before = poses_snapshot(g)
                    fired_before = len(w.plan.fired)
                    nsr_before = w.natural_solver_raises
                    ref = None
                    if not dry and op["max_iter"] == 1 and all_finite(before):
                        try:
                            # assembled on a brand-new clone of the visible state, so that nothing the graph's own edge /
                            # vertex objects may have remembered from earlier calls can leak into the reference
                            ref = reference_reduced_step(graphs.clone(g), model)
                        except Exception as e:  # reference could not be formed (e.g. user edge on degenerate input)
                            ref = {"ok": False, "why": "reference-raised:" + type(e).__name__}
                    shadow = None
                    if not dry and op["max_iter"] > 1 and op.get("shadow") and all_finite(before):
                        shadow = graphs.clone(g)  # visible state only; same fixed flags
                    raised = None
                    result = None
                    try:
                        ffp = op["fix_first_pose"]
                        if op.get("flag_type") == "np_bool":
                            ffp = np.bool_(ffp)
                        elif op.get("flag_type") == "int":
                            ffp = int(ffp)
                        if op.get("use_defaults"):
                            result = g.optimize()
                        elif op.get("call_style") == "positional":
                            result = g.optimize(op["tol"], op["max_iter"], ffp, op["verbose"])
                        else:
                            result = g.optimize(tol=op["tol"], max_iter=op["max_iter"], fix_first_pose=ffp, verbose=op["verbose"])
                    except Exception as e:  # noqa
                        raised = e
                    after = poses_snapshot(g)
                    fired = w.plan.fired[fired_before:]
                    fired_kinds = {f["kind"] for f in fired}
                    if "nan_fill" in fired_kinds and (case.get("config") or {}).get("warnings", {}).get("kind") in ("error", "error_all"):
                        # under -W error the singular-factor warning of the (simulated) solver is itself the exception
                        fired_kinds = fired_kinds | {"raise_rankwarning"}
                    result_changing = bool(fired_kinds & (RAISING | {"nan_fill"}))
                    # outcome class
                    if raised is not None:
                        oc = "raised:" + type(raised).__name__
                    elif not all_finite(after) or (result.final_chi2 is not None and not math.isfinite(result.final_chi2)):
                        oc = "nan"
                    elif result.converged:
                        oc = "converged"
                    elif result.final_chi2 > result.initial_chi2:
                        oc = "diverged"
                    else:
                        oc = "max_iter"
                    log.note("optimize", [oc, [repr(float(x)) for a in after for x in a]])
                    sig_ops.append("optimize:" + oc + (":1" if op["max_iter"] == 1 else ""))
                    if dry:
                        continue
                    res.outcome(oc)
                    if oc == "nan":
                        res.probe("nan_outcome")
                        if "nan_fill" not in fired_kinds:
                            res.probe("singular_natural")
                    if oc == "diverged":
                        res.probe("diverged_outcome")
                    if fired_kinds & {"raise_memory", "raise_runtime", "raise_rankwarning"}:
                        res.probe("solver_raise_fired")
                    if fired_kinds & {"broken_pipe", "eio", "closed"}:
                        res.probe("stdout_fail_fired")
                    nfix = len(model)
                    if nfix == 0:
                        res.probe("none_fixed")
                    if nfix == len(verts):
                        res.probe("all_fixed")
                    edge_vids = {vid for e in case["workload"]["edges"] for vid in e["ids"]}
                    if any(v.id in model and v.id not in edge_vids for v in verts):
                        res.probe("fixed_isolated")
                    if any(v.id in model and sv.get("role") == "landmark" for v, sv in zip(verts, case["workload"]["vertices"])):
                        res.probe("fixed_landmark")
                    if raised is not None and type(raised).__name__ == "MatrixRankWarning" and not (fired_kinds & RAISING):
                        res.probe("singular_raised_as_error")
                    # unexpected exception
                    if raised is not None and not (fired_kinds & RAISING):
                        wellposed = ref is not None and ref.get("ok")
                        if w.natural_solver_raises > nsr_before and type(raised).__name__ != "SparseEfficiencyWarning" and not wellposed:
                            res.probe("solver_raised_naturally")
                        if wellposed:
                            res.violate("C06:raised-on-well-posed",
                                        "op %d optimize raised %s: %s although the reduced problem is well-posed (cond %.3g)"
                                        % (i, type(raised).__name__, raised, ref["cond"]))
                        else:
                            res.outcome("unexpected-raise:" + type(raised).__name__)
                    # I1: fixed vertices did not move
                    for k, v in enumerate(verts):
                        if v.id in model:
                            res.n_checks += 1
                            ok, worst = graphs.pose_arrays_close(types[k], before[k], after[k], I1_REL)
                            if not ok:
                                cls = "nan" if not np.all(np.isfinite(after[k])) else "moved"
                                res.violate("C06:fixed-moved:" + cls,
                                            "vertex id %d (%s, listed #%d) pose %s -> %s after op %d (%s)"
                                            % (v.id, types[k], k, before[k].tolist(), after[k].tolist(), i, oc))
                                break
                    # I2: flags == model
                    for k, v in enumerate(verts):
                        res.n_checks += 1
                        want = v.id in model
                        if bool(v.fixed) != want:
                            if raised is not None and k == 0 and op["fix_first_pose"] and verts[0].id not in pre_model:
                                continue  # aborted call: the first flag may or may not have been set
                            res.violate("C06:fixed-flag",
                                        "vertex id %d (listed #%d) fixed=%r but the fixed-set model says %r after op %d "
                                        "(fix_first_pose=%r)" % (v.id, k, v.fixed, want, i, op["fix_first_pose"]))
                            break
                    if raised is not None and verts and bool(verts[0].fixed) != (verts[0].id in model):
                        # keep the model in step with what the aborted call actually did
                        if verts[0].fixed:
                            model.add(verts[0].id)
                        else:
                            model.discard(verts[0].id)
                    if nfix > 0:
                        nontrivial_opt = True
                    # I3: reduced single step
                    if ref is not None and raised is None and not result_changing:
                        if ref.get("ok"):
                            res.probe("i3_checked")
                            tol = 1000 * EPS * ref["cond"]
                            scale = ref["dx_norm"] + ref["x_norm"]
                            for k, v in enumerate(verts):
                                if k not in ref["new"]:
                                    continue
                                res.n_checks += 1
                                ok, worst = graphs.pose_arrays_close(types[k], ref["new"][k], after[k], 0.0,
                                                                     abs_floor=tol * max(1.0, scale) + 1e-12)
                                if not ok:
                                    cls = "nan" if not np.all(np.isfinite(after[k])) else "differs"
                                    res.violate("C06:reduced-step:" + cls,
                                                "free vertex id %d (%s): optimize(max_iter=1) gave %s, the reduced "
                                                "Gauss-Newton step over the free unknowns gives %s (cond(H_ff)=%.3g, %d "
                                                "fixed of %d) at op %d"
                                                % (v.id, types[k], after[k].tolist(), ref["new"][k].tolist(), ref["cond"],
                                                   nfix, len(verts), i))
                                    break
                            nontrivial_opt = True
                        elif ref.get("why") == "ill-conditioned":
                            res.probe("i3_skipped_illcond")
                    # I3 along the trajectory: a shadow clone is advanced one update at a time in a benign
                    # environment and every one of its steps is compared with the independent reduced step
                    if shadow is not None and raised is None and not fired_kinds and not res.violations:
                        n_total = int(result.num_iterations or 0)
                        n_steps = min(n_total, 8)
                        s_types = [graphs.type_name(v.pose) for v in shadow._vertices]
                        for j in range(n_steps):
                            sref = None
                            try:
                                sref = reference_reduced_step(shadow, model)
                            except Exception:  # noqa
                                break
                            saved_op, saved_kind = w.log.op_index, w.clock.kind
                            w.log.op_index = -5000 - i
                            w.clock.kind = "steady"
                            w.set_stdout({"kind": "memory"})
                            try:
                                shadow.optimize(tol=0.0, max_iter=1, fix_first_pose=op["fix_first_pose"], verbose=False)
                            except Exception:  # noqa -- the shadow is only an observer
                                sref = None
                            finally:
                                w.log.op_index, w.clock.kind = saved_op, saved_kind
                            if sref is None or not sref.get("ok"):
                                break
                            s_after = poses_snapshot(shadow)
                            if not all_finite(s_after):
                                break
                            res.probe("i3_trajectory_step")
                            tol = 1000 * EPS * sref["cond"]
                            scale = sref["dx_norm"] + sref["x_norm"]
                            bad = False
                            for k, v in enumerate(shadow._vertices):
                                if k not in sref["new"]:
                                    continue
                                res.n_checks += 1
                                ok, worst = graphs.pose_arrays_close(s_types[k], sref["new"][k], s_after[k], 0.0,
                                                                     abs_floor=tol * max(1.0, scale) + 1e-12)
                                if not ok:
                                    res.violate("C06:reduced-step:trajectory",
                                                "free vertex id %d (%s): update %d of the trajectory started at op %d gave %s, the "
                                                "reduced Gauss-Newton step gives %s (cond(H_ff)=%.3g)"
                                                % (v.id, s_types[k], j + 1, i, s_after[k].tolist(), sref["new"][k].tolist(), sref["cond"]))
                                    bad = True
                                    break
                            if bad:
                                break
                        else:
                            # every update of the shadow matched the reduced step; if it made as many updates as the
                            # call itself, the call must have ended where the shadow ended (an n-iteration call that
                            # breaks down in iteration >= 2 -- e.g. NaN on a well-posed problem -- shows up here)
                            if n_steps == n_total and n_total > 0 and not res.violations:
                                s_end = poses_snapshot(shadow)
                                if all_finite(s_end):
                                    res.probe("multi_iteration_end_state_checked")
                                    for k in range(len(verts)):
                                        res.n_checks += 1
                                        ok, worst = graphs.pose_arrays_close(types[k], s_end[k], after[k], 1e-9, abs_floor=1e-12)
                                        if not ok:
                                            cls = "nan" if not np.all(np.isfinite(after[k])) else "differs"
                                            res.violate("C06:reduced-step:multi-iteration-" + cls,
                                                        "vertex id %d (%s): optimize(max_iter=%d) performed %d updates and ended at %s; %d single "
                                                        "reduced Gauss-Newton steps from the same state end at %s"
                                                        % (verts[k].id, types[k], op["max_iter"], n_total, after[k].tolist(), n_total, s_end[k].tolist()))
                                            break
                else:  # pragma: no cover
                    raise ValueError("unknown op %r" % kind)
            if dry:
                res.counts = w.op_counts()
                return res
            fsig = []
            for f in case.get("faults", []):
                fsig.append("%s:%s@%s" % (f["seam"], f["kind"], pos_bucket(f["event"], f.get("of", 0))))
            sig = [meta.get("family"), meta.get("topology"), meta.get("fixed_class"), sig_ops, sorted(fsig)]
            res.faults_planned = len(case.get("faults", []))
            res.nontrivial = nontrivial_opt and res.n_checks > 0
            finish_result(res, w, log, sig)
        return res
