"""Seeded search over simulated runs: batch runner, shrinker, replay, evidence.

One process per worker (fork), one seed per run, results merged in seed order
so that nothing depends on worker timing.  Exit codes: 0 held, 1 violation
(only after the shrunk case reproduced in a fresh interpreter), 2 harness
error / timeout.
"""

import copy
import faulthandler
import json
import multiprocessing
import os
import subprocess
import sys
import traceback
from concurrent.futures import ProcessPoolExecutor, as_completed

from . import core
from .world import real_time

VERIF = os.path.dirname(os.path.dirname(os.path.abspath(__file__)))
REPO = os.environ.get("GSIM_REPO", "/repo")
OUT = os.environ.get("GSIM_OUT", VERIF)  # evidence/ and replays/ go here (scratch dir for the mutant self-test)
FORMAT = 1


def _json_default(o):
    """numpy scalars / arrays that found their way into a case or an event trace."""
    try:
        import numpy as np

        if isinstance(o, np.integer):
            return int(o)
        if isinstance(o, np.floating):
            return float(o)
        if isinstance(o, np.bool_):
            return bool(o)
        if isinstance(o, np.ndarray):
            return o.tolist()
    except Exception:  # pragma: no cover
        pass
    return str(o)


def repo_rev():
    try:
        head = subprocess.run(["git", "-C", REPO, "rev-parse", "HEAD"], capture_output=True, text=True, timeout=20).stdout.strip()
        diff = subprocess.run(["git", "-C", REPO, "diff", "HEAD", "--", "graphslam"], capture_output=True, timeout=20).stdout
        if diff:
            import hashlib

            return "dirty:%s+%s" % (head[:12], hashlib.sha1(diff).hexdigest()[:12])
        return head
    except Exception:  # pragma: no cover
        return "unknown"


# --------------------------------------------------------------------------- #
# executing one run
# --------------------------------------------------------------------------- #
def run_one(engine, base_seed, tier, index):
    """Generate and execute run #index.  Returns a summary dict (picklable)."""
    seed = core.run_seed(base_seed, engine.PROPERTY, tier, index)
    out = {"index": index, "seed": seed}
    try:
        rng = core.make_rng(seed)
        case = engine.generate(rng, tier, index)
        case["seed"] = seed
        case["property"] = engine.PROPERTY
        case["format"] = FORMAT
        res = engine.execute(case)
        out.update(res.summary())
        out["faulted"] = bool(case.get("faults"))
        if res.violations or index < 2:
            out["case"] = case
    except Exception:  # harness error -- never a pass, never a violation
        out["harness_error"] = traceback.format_exc()
    return out


def run_family(engine, base_seed, tier, index, deadline=None):
    """Run #index, plus -- for the runs the engine selects -- a complete sweep of fault positions:
    the same workload re-executed once per seam event of the chosen operations (section 3.4 of DESIGN.md)."""
    first = run_one(engine, base_seed, tier, index)
    outs = [first]
    faulthandler.dump_traceback_later(engine.RUN_WALL_CAP_S, exit=True)  # generate + dry run of the sweep family
    every = getattr(engine, "SWEEP_EVERY", {}).get(tier)
    if not every or index % every != every // 2 or "harness_error" in first or first.get("violations"):
        return outs
    seed = first["seed"]
    try:
        rng = core.make_rng(seed)
        case = engine.generate(rng, tier, index)
        case["seed"] = seed
        case["property"] = engine.PROPERTY
        case["format"] = FORMAT
        case["faults"] = []
        plans = engine.sweep_plans(case)
    except Exception:
        outs.append({"index": index, "sub": 1, "seed": seed, "harness_error": traceback.format_exc()})
        return outs
    for k, plan in enumerate(plans):
        if deadline is not None and real_time() > deadline:
            # the tier's wall-clock cap also ends a sweep family: the rest is counted as skipped on budget
            outs.append({"index": index, "sub": k + 1, "skipped": True})
            continue
        out = {"index": index, "sub": k + 1, "seed": seed, "sweep": True}
        # re-arm the hang watchdog: it bounds one execution, not a whole family of sub-cases
        faulthandler.dump_traceback_later(engine.RUN_WALL_CAP_S, exit=True)
        try:
            sub = copy.deepcopy(case)
            sub["faults"] = plan
            res = engine.execute(sub)
            out.update(res.summary())
            out["faulted"] = True
            if res.violations:
                out["case"] = sub
        except Exception:
            out["harness_error"] = traceback.format_exc()
        outs.append(out)
    return outs


_ENGINE = None


def _worker_chunk(args):
    base_seed, tier, indices, deadline = args
    faulthandler.enable()
    results = []
    for i in indices:
        if real_time() > deadline:
            results.append({"index": i, "skipped": True})
            continue
        faulthandler.dump_traceback_later(_ENGINE.RUN_WALL_CAP_S, exit=True)
        try:
            results.extend(run_family(_ENGINE, base_seed, tier, i, deadline))
        finally:
            faulthandler.cancel_dump_traceback_later()
    return results


# --------------------------------------------------------------------------- #
# shrinking
# --------------------------------------------------------------------------- #
class _IsoResult:
    def __init__(self, d):
        self.violations = d.get("violations", [])
        self.digest = d.get("digest")
        self.events = d.get("events")


def _exec_isolated(engine, case, timeout=300):
    """Execute one case in a forked child, so that whatever the code under test leaves behind in process-global
    state (class-level caches, module variables, singletons) cannot leak from one candidate execution into the next:
    every execution starts from the parent's pristine state, exactly like the fresh-interpreter replay will."""
    import pickle
    import select

    r, w = os.pipe()
    pid = os.fork()
    if pid == 0:  # child
        code = 0
        try:
            os.close(r)
            try:
                res = engine.execute(copy.deepcopy(case))
                payload = {"violations": res.violations, "digest": res.digest, "events": res.events}
            except BaseException as e:  # noqa
                payload = {"error": "%s: %s" % (type(e).__name__, e)}
            with os.fdopen(w, "wb") as f:
                pickle.dump(payload, f)
        except BaseException:  # noqa
            code = 3
        finally:
            os._exit(code)
    os.close(w)
    data = b""
    t_end = real_time() + timeout
    try:
        while True:
            left = t_end - real_time()
            if left <= 0:
                break
            ready, _, _ = select.select([r], [], [], min(left, 5.0))
            if ready:
                chunk = os.read(r, 1 << 16)
                if not chunk:
                    break
                data += chunk
    finally:
        os.close(r)
        try:
            if real_time() >= t_end:
                os.kill(pid, 9)
            os.waitpid(pid, 0)
        except Exception:
            pass
    if not data:
        return None
    try:
        d = pickle.loads(data)
    except Exception:
        return None
    if "error" in d:
        return None
    return _IsoResult(d)


def _same_class(engine, case, vclass):
    res = _exec_isolated(engine, case)
    if res is None:
        return None
    for v in res.violations:
        if v["class"] == vclass:
            return res
    return None


def _drop_ops(case, lo, hi):
    """Remove ops[lo:hi]; faults on removed ops go, later faults are re-addressed."""
    c = copy.deepcopy(case)
    del c["ops"][lo:hi]
    newf = []
    for f in c.get("faults", []):
        if lo <= f["op_index"] < hi:
            continue
        if f["op_index"] >= hi:
            f = dict(f, op_index=f["op_index"] - (hi - lo))
        newf.append(f)
    c["faults"] = newf
    return c


def _drop_op(case, k):
    return _drop_ops(case, k, k + 1)


def shrink(engine, case, vclass, max_exec=400, wall_s=120.0):
    """Greedy delta-debugging on faults, ops, workload, config; same violation class throughout."""
    t_end = real_time() + wall_s
    budget = [max_exec]
    best = copy.deepcopy(case)

    def attempt(cand):
        if budget[0] <= 0 or real_time() > t_end:
            return False
        budget[0] -= 1
        return _same_class(engine, cand, vclass) is not None

    progress = True
    while progress and budget[0] > 0 and real_time() < t_end:
        progress = False
        # 1. faults
        if best.get("faults"):
            cand = copy.deepcopy(best)
            cand["faults"] = []
            if attempt(cand):
                best = cand
                progress = True
            else:
                k = 0
                while k < len(best["faults"]):
                    cand = copy.deepcopy(best)
                    del cand["faults"][k]
                    if attempt(cand):
                        best = cand
                        progress = True
                    else:
                        k += 1
        # 2. ops: chunks first (ddmin), then one at a time from the end backwards
        size = len(best.get("ops", [])) // 2
        while size >= 2 and budget[0] > 0:
            hi = len(best["ops"])
            removed = False
            while hi - size >= 0 and len(best["ops"]) > size:
                lo = hi - size
                cand = _drop_ops(best, lo, hi)
                if cand["ops"] and attempt(cand):
                    best = cand
                    progress = True
                    removed = True
                    hi = min(lo, len(best["ops"]))
                else:
                    hi = lo
                if hi < size:
                    break
            if not removed or size > len(best["ops"]) // 2:
                size //= 2
        k = len(best.get("ops", [])) - 1
        while k >= 0 and len(best["ops"]) > 1:
            cand = _drop_op(best, k)
            if attempt(cand):
                best = cand
                progress = True
            k -= 1
        # 3. engine-specific moves (workload graph, numbers, config)
        for cand in engine.shrink_moves(best):
            if attempt(cand):
                best = cand
                progress = True
                break  # regenerate moves from the new best
    return best


# --------------------------------------------------------------------------- #
# known findings
# --------------------------------------------------------------------------- #
def load_known_findings():
    path = os.path.join(VERIF, "known_findings.json")
    if not os.path.exists(path):
        return []
    with open(path) as f:
        return json.load(f).get("findings", [])


def match_known(engine, case, violation, findings):
    for kf in findings:
        if kf.get("status") != "known" or kf.get("property") != engine.PROPERTY:
            continue
        m = kf.get("match", {})
        if m.get("class") and m["class"] != violation["class"]:
            continue
        pred = engine.FINDING_PREDICATES.get(m.get("predicate"))
        if pred is None:
            continue
        try:
            if pred(case, violation):
                return kf
        except Exception:
            continue
    return None


# --------------------------------------------------------------------------- #
# replay
# --------------------------------------------------------------------------- #
def replay_file(engines, path):
    with open(path) as f:
        rec = json.load(f)
    engine = engines[rec["property"]]()
    case = rec["case"]
    res = engine.execute(copy.deepcopy(case))
    want = rec.get("violation", {}).get("class")
    got = [v["class"] for v in res.violations]
    print("replay: property=%s seed=%s expected=%s got=%s" % (rec["property"], rec.get("seed"), want, got))
    print("replay: digest expected=%s" % rec.get("event_digest"))
    print("replay: digest got     =%s" % res.digest)
    if want in got or (want is None and got):
        match = "match" if res.digest == rec.get("event_digest") else "differs"
        for v in res.violations:
            print("replay: %s -- %s" % (v["class"], v["detail"]))
        print("replay: reproduced digest=%s" % match)
        print("VIOLATION property=%s replay=%s" % (rec["property"], path))
        return 1
    print("replay: NOT-REPRODUCED (the property held on this case)")
    return 0


def _fresh_replay(path):
    """Re-execute a replay file in a fresh interpreter under another PYTHONHASHSEED."""
    env = dict(os.environ)
    env["PYTHONHASHSEED"] = "77"
    p = subprocess.run(
        [sys.executable, os.path.join(VERIF, "check"), "replay", path],
        capture_output=True, text=True, env=env, timeout=300,
    )
    ok = p.returncode == 1 and "reproduced digest=match" in p.stdout
    return ok, p.stdout + p.stderr


# --------------------------------------------------------------------------- #
# the check command
# --------------------------------------------------------------------------- #
def run_check(engine_cls, tier, base_seed, jobs=None, runs=None, budget_s=None, quiet=False):
    global _ENGINE
    engine = engine_cls()
    _ENGINE = engine
    t_start = real_time()
    tcfg = dict(engine.TIERS[tier])
    if runs is not None:
        tcfg["runs"] = runs
    if budget_s is not None:
        tcfg["budget_s"] = budget_s
    n_runs = int(tcfg["runs"])
    deadline = t_start + float(tcfg["budget_s"])
    jobs = jobs or int(os.environ.get("VERIF_JOBS", "0")) or min(16, os.cpu_count() or 1)
    chunk = max(1, min(int(tcfg.get("chunk", 16)), (n_runs + jobs - 1) // jobs))
    tasks = [(base_seed, tier, list(range(i, min(i + chunk, n_runs))), deadline) for i in range(0, n_runs, chunk)]

    results = {}
    harness_errors = []
    dead_workers = 0
    if jobs == 1:
        for t in tasks:
            for r in _worker_chunk(t):
                results[(r["index"], r.get("sub", 0))] = r
    else:
        ctx = multiprocessing.get_context("fork")
        with ProcessPoolExecutor(max_workers=jobs, mp_context=ctx) as pool:
            futs = {pool.submit(_worker_chunk, t): t for t in tasks}
            try:
                for fut in as_completed(futs, timeout=float(tcfg["budget_s"]) + float(getattr(engine, "RUN_WALL_CAP_S", 300)) + 120.0):
                    try:
                        for r in fut.result():
                            results[(r["index"], r.get("sub", 0))] = r
                    except Exception as e:  # a worker died (watchdog) or raised
                        dead_workers += 1
                        harness_errors.append("worker failure on indices %s: %r" % (futs[fut][2][:3], e))
            except Exception as e:  # TimeoutError
                harness_errors.append("batch timeout: %r" % (e,))
                for f in futs:
                    f.cancel()

    ordered = [results[i] for i in sorted(results)]
    done = [r for r in ordered if not r.get("skipped") and "harness_error" not in r]
    skipped = sum(1 for r in ordered if r.get("skipped"))
    for r in ordered:
        if "harness_error" in r:
            harness_errors.append("run %d seed %d:\n%s" % (r["index"], r["seed"], r["harness_error"]))

    # aggregate
    agg = {
        "probes": {}, "faults_fired": {}, "outcomes": {}, "seam_counts": {},
        "sim_time": 0.0, "events": 0, "checks": 0, "faulted_runs": 0, "fault_free_runs": 0,
        "faults_planned": 0,
    }
    sigs = set()
    sigs_all = set()
    digests = core.hashlib.sha256()
    sweep_families = len({r["index"] for r in done if r.get("sweep")})
    sweep_subcases = sum(1 for r in done if r.get("sweep"))
    for r in done:
        for key in ("probes", "faults_fired", "outcomes", "seam_counts"):
            for k, v in r[key].items():
                agg[key][k] = agg[key].get(k, 0) + v
        agg["sim_time"] += r["sim_time"]
        agg["events"] += r["n_events"]
        agg["checks"] += r["n_checks"]
        agg["faults_planned"] += r["faults_planned"]
        if r["faulted"]:
            agg["faulted_runs"] += 1
        else:
            agg["fault_free_runs"] += 1
        sigs_all.add(r["signature"])
        if r["nontrivial"]:
            sigs.add(r["signature"])
        digests.update((r["digest"] or "").encode())

    # violations: shrink, write replay, re-validate in a fresh interpreter
    findings = load_known_findings()
    violating = [r for r in done if r["violations"]]
    reported = []
    known_seen = {}
    seen_classes = {}
    rev = repo_rev() if violating else None
    for r in violating:
        v = r["violations"][0]
        kf = match_known(engine, r["case"], v, findings)
        if kf is not None:
            known_seen[kf["id"]] = known_seen.get(kf["id"], 0) + 1
            continue
        seen_classes.setdefault(v["class"], []).append(r)
    os.makedirs(os.path.join(OUT, "replays", engine.PROPERTY), exist_ok=True)
    n_rep = 0
    leaked = []
    for vclass, rs in sorted(seen_classes.items()):
        n_rep += 1
        if n_rep > 4:  # enough distinct classes shrunk; still counted below
            continue
        # a run may have tripped only because an earlier run of the same worker left process-global state behind;
        # pick a run of this class that reproduces on its own (every candidate execution is isolated in a forked child)
        r = None
        for cand in rs[:6]:
            if _same_class(engine, cand["case"], vclass) is not None:
                r = cand
                break
        if r is None:
            leaked.append((vclass, rs[0]["seed"], len(rs)))
            continue
        small = shrink(engine, r["case"], vclass)
        # the shrunk case may now match a known finding
        res = _same_class(engine, small, vclass)
        if res is None:  # should not happen: shrink only accepts reproducing cases
            small = r["case"]
            res = _same_class(engine, small, vclass)
        if res is None:
            harness_errors.append("violation %s (seed %d) did not reproduce in-process" % (vclass, r["seed"]))
            continue
        viol = [x for x in res.violations if x["class"] == vclass][0]
        kf = match_known(engine, small, viol, findings)
        if kf is not None:
            known_seen[kf["id"]] = known_seen.get(kf["id"], 0) + len(rs)
            continue
        rec = {
            "format": FORMAT, "property": engine.PROPERTY, "engine": engine.ENGINE_NAME, "seed": r["seed"],
            "base_seed": base_seed, "tier": tier, "run_index": r["index"], "sweep_subcase": r.get("sub", 0), "repo_rev": rev,
            "case": small, "violation": viol, "event_digest": res.digest, "event_trace_tail": res.events,
            "fault_plan": [dict(f) for f in small.get("faults", [])],
            "n_runs_with_this_class": len(rs),
        }
        path = os.path.join(OUT, "replays", engine.PROPERTY, "%d-%d.json" % (r["seed"], n_rep))
        with open(path, "w") as f:
            json.dump(rec, f, indent=1, sort_keys=True, default=_json_default)
        ok, out = _fresh_replay(path)
        if ok:
            reported.append((path, viol, len(rs)))
        else:
            harness_errors.append("replay of %s did not reproduce in a fresh interpreter:\n%s" % (path, out[-2000:]))

    for vclass, seed, n in leaked:
        harness_errors.append("violation class %s (%d runs, e.g. seed %d) appears only when runs share a process: the code under test keeps "
                              "process-global state between runs, but no single run reproduces it in isolation" % (vclass, n, seed))
    wall = real_time() - t_start
    n_eval = len(done)
    samples = [r["case"] for r in ordered if "case" in r and not r.get("violations")][:2]
    if not samples:
        samples = [r["case"] for r in ordered if "case" in r][:1]
    if hasattr(engine, "sample_view"):
        samples = [engine.sample_view(c) for c in samples]
    evidence = {
        "property_id": engine.PROPERTY,
        "tier": tier,
        "seed": int(base_seed),
        "level": "exploration",
        "coverage": {
            "evaluations": n_eval,
            "distinct_nontrivial": len(sigs),
            "distinct_signatures_all": len(sigs_all),
            "rule": engine.RULE,
            "samples": samples,
            "runs_requested": n_runs,
            "runs_skipped_on_budget": skipped,
            "runs_per_hour": int(n_eval / wall * 3600) if wall > 0 else 0,
            "seeds": {"base": int(base_seed), "derivation": "splitmix64(base, crc32(property), crc32(tier), index)", "first_index": 0, "last_index": n_runs - 1},
            "simulated_time_s": round(agg["sim_time"], 3),
            "seam_events": agg["events"],
            "seam_events_by_seam": agg["seam_counts"],
            "oracle_comparisons": agg["checks"],
            "faults_planned": agg["faults_planned"],
            "faults_fired": agg["faults_fired"],
            "fault_position_sweeps": {"families": sweep_families, "subcases": sweep_subcases,
                                      "meaning": "for each family the same fault-free workload was re-executed once per seam event of its operations (complete fault-position coverage for that workload, fault kind chosen round-robin)"},
            "fault_free_runs": agg["fault_free_runs"],
            "faulted_runs": agg["faulted_runs"],
            "probes": agg["probes"],
            "outcome_classes": agg["outcomes"],
            "components": engine.COMPONENTS,
            "batch_digest": "sha256:" + digests.hexdigest(),
            "known_findings_seen": known_seen,
            "jobs": jobs,
            "harness_errors": len(harness_errors),
        },
        "assumptions": engine.ASSUMPTIONS,
        "wall_s": round(wall, 2),
        "violations": len(reported),
    }
    os.makedirs(os.path.join(OUT, "evidence"), exist_ok=True)
    with open(os.path.join(OUT, "evidence", engine.PROPERTY + ".json"), "w") as f:
        json.dump(evidence, f, indent=1, sort_keys=True, default=_json_default)
    # a per-tier copy, so that a quick run does not erase what the last thorough run covered
    with open(os.path.join(OUT, "evidence", "%s.%s.json" % (engine.PROPERTY, tier)), "w") as f:
        json.dump(evidence, f, indent=1, sort_keys=True, default=_json_default)

    if not quiet:
        print("%s tier=%s seed=%d: %d runs (%d skipped on budget) in %.1fs, %d distinct non-trivial signatures, "
              "%d faults fired, %d oracle comparisons" % (engine.PROPERTY, tier, base_seed, n_eval, skipped, wall,
                                                        len(sigs), sum(agg["faults_fired"].values()), agg["checks"]))
        zero = [p for p in engine.PROBES if not agg["probes"].get(p)]
        if zero:
            print("%s probes not reached in this batch: %s" % (engine.PROPERTY, ", ".join(zero)))
    for kf in findings:
        if kf.get("status") == "known" and kf.get("property") == engine.PROPERTY:
            print("KNOWN-FINDING: property=%s %s (seen in %d runs of this batch)" % (engine.PROPERTY, kf["what"], known_seen.get(kf["id"], 0)))
    for path, viol, n in reported:
        print("%s: %s -- %s (%d runs)" % (engine.PROPERTY, viol["class"], viol["detail"], n))
        print("VIOLATION property=%s replay=%s" % (engine.PROPERTY, path))
    if harness_errors:
        for h in harness_errors[:5]:
            print("HARNESS-ERROR: " + h, file=sys.stderr)
        print("HARNESS-ERROR: %d harness errors; not a pass" % len(harness_errors))
        return 1 if reported else 2
    if n_eval == 0:
        print("HARNESS-ERROR: no run completed")
        return 2
    return 1 if reported else 0
