"""User programs (seam S7): custom BaseEdge subclasses used as *workload*.

They are written the way the README / tests/test_custom_edge.py tell users to
write custom edges.  ``Numeric*`` twins force the perturb-and-restore numerical
differentiation fallback of ``BaseEdge.calc_jacobians`` on built-in edges.
"""

import numpy as np

from graphslam.edge.base_edge import BaseEdge
from graphslam.edge.edge_landmark import EdgeLandmark
from graphslam.edge.edge_odometry import EdgeOdometry
from graphslam.util import upper_triangular_matrix_to_full_matrix


# Seam S7 hook: the World installs a callable here; user edges call it on entry to calc_error, so that the
# simulator can let "something happen while user code runs" (Ctrl-C arriving, the user's own code raising).
HOOK = [None]


def _user_code_event():
    h = HOOK[0]
    if h is not None:
        h()


class PriorEdge(BaseEdge):
    """Unary edge with analytic Jacobian: err = (pose (-) estimate).to_compact()."""

    KIND = "prior"

    def is_valid(self):
        return self._is_valid() and len(self.vertices) == 1 and isinstance(self.estimate, type(self.vertices[0].pose))

    def calc_error(self):
        _user_code_event()
        return (self.vertices[0].pose - self.estimate).to_compact()

    def calc_jacobians(self):
        p = self.vertices[0].pose
        return [np.dot(p.jacobian_self_ominus_other_wrt_self_compact(self.estimate), p.jacobian_boxplus())]


class LikelihoodPriorEdge(PriorEdge):
    """A prior whose chi^2 is a negative log-likelihood: the quadratic form plus a constant normalisation term.
    (Overriding calc_chi2 is what a user does for that; the graph's chi^2 is the sum of the edges' calc_chi2().)"""

    KIND = "likelihood_prior"

    def calc_chi2(self):
        return BaseEdge.calc_chi2(self) + 0.75


class NumericPriorEdge(PriorEdge):
    KIND = "numeric_prior"

    def calc_jacobians(self):
        return BaseEdge.calc_jacobians(self)


class DistanceEdge(BaseEdge):
    """Distance between two poses minus a scalar estimate; numerical Jacobians (README pattern)."""

    KIND = "distance"

    def is_valid(self):
        return self._is_valid() and len(self.vertices) == 2

    def calc_error(self):
        _user_code_event()
        return np.array([np.linalg.norm((self.vertices[0].pose - self.vertices[1].pose).position) - self.estimate])

    def to_g2o(self):
        return "EDGE_DISTANCE {} {} {} {}\n".format(
            self.vertex_ids[0], self.vertex_ids[1], self.estimate, self.information[0][0]
        )

    @classmethod
    def from_g2o(cls, line, g2o_params_or_none=None):
        if line.startswith("EDGE_DISTANCE "):
            numbers = line[len("EDGE_DISTANCE "):].split()  # fmt: skip
            arr = np.array([float(number) for number in numbers[2:]], dtype=np.float64)
            return cls([int(numbers[0]), int(numbers[1])], np.array([[arr[1]]]), arr[0])
        return None


class MidpointEdge(BaseEdge):
    """3-ary edge: (p0 + p2)/2 - p1 - estimate on positions; numerical Jacobians."""

    KIND = "midpoint"

    def is_valid(self):
        return self._is_valid() and len(self.vertices) == 3

    def calc_error(self):
        _user_code_event()
        p0, p1, p2 = (v.pose.position for v in self.vertices)
        return 0.5 * (p0 + p2) - p1 - self.estimate


class PointPriorXY(BaseEdge):
    """Unary custom edge with a .g2o representation (used by the import workload)."""

    KIND = "point_prior_xy"

    def is_valid(self):
        return self._is_valid() and len(self.vertices) == 1

    def calc_error(self):
        return self.vertices[0].pose.position[:2] - self.estimate

    def to_g2o(self):
        # fmt: off
        return "EDGE_PRIOR_XY {} {} {} ".format(self.vertex_ids[0], self.estimate[0], self.estimate[1]) + " ".join([str(x) for x in self.information[np.triu_indices(2, 0)]]) + "\n"
        # fmt: on

    @classmethod
    def from_g2o(cls, line, g2o_params_or_none=None):
        if line.startswith("EDGE_PRIOR_XY "):
            numbers = line[len("EDGE_PRIOR_XY "):].split()  # fmt: skip
            arr = np.array([float(number) for number in numbers[1:]], dtype=np.float64)
            return cls([int(numbers[0])], upper_triangular_matrix_to_full_matrix(arr[2:], 2), arr[:2])
        return None


class NumericOdometry(EdgeOdometry):
    KIND = "numeric_odometry"

    def calc_jacobians(self):
        return BaseEdge.calc_jacobians(self)


class NumericLandmark(EdgeLandmark):
    KIND = "numeric_landmark"

    def calc_jacobians(self):
        return BaseEdge.calc_jacobians(self)


class VisualRange(DistanceEdge):
    """Same edge as DistanceEdge under a tag that starts with 'V' (but is not a vertex tag)."""

    KIND = "visual_range"

    def to_g2o(self):
        return "VISUAL_RANGE {} {} {} {}\n".format(self.vertex_ids[0], self.vertex_ids[1], self.estimate, self.information[0][0])

    @classmethod
    def from_g2o(cls, line, g2o_params_or_none=None):
        if line.startswith("VISUAL_RANGE "):
            numbers = line[len("VISUAL_RANGE "):].split()  # fmt: skip
            arr = np.array([float(number) for number in numbers[2:]], dtype=np.float64)
            return cls([int(numbers[0]), int(numbers[1])], np.array([[arr[1]]]), arr[0])
        return None


class PriorTagP(PointPriorXY):
    """Same edge as PointPriorXY under a tag that starts with 'P' (but is not a parameter tag)."""

    KIND = "prior_tag_p"

    def to_g2o(self):
        # fmt: off
        return "PRIOR_XY {} {} {} ".format(self.vertex_ids[0], self.estimate[0], self.estimate[1]) + " ".join([str(x) for x in self.information[np.triu_indices(2, 0)]]) + "\n"
        # fmt: on

    @classmethod
    def from_g2o(cls, line, g2o_params_or_none=None):
        if line.startswith("PRIOR_XY "):
            numbers = line[len("PRIOR_XY "):].split()  # fmt: skip
            arr = np.array([float(number) for number in numbers[1:]], dtype=np.float64)
            return cls([int(numbers[0])], upper_triangular_matrix_to_full_matrix(arr[2:], 2), arr[:2])
        return None


class RobustOdometrySE2(EdgeOdometry):
    """A user's subclass that takes over the built-in EDGE_SE2 lines (registered custom types are asked first)."""

    KIND = "robust_odometry_se2"

    @classmethod
    def from_g2o(cls, line, g2o_params_or_none=None):
        if line.startswith("EDGE_SE2 "):
            base = EdgeOdometry.from_g2o(line, g2o_params_or_none)
            return cls(base.vertex_ids, base.information, base.estimate)
        return None


class DistanceEdgeLate(DistanceEdge):
    """Also claims EDGE_DISTANCE lines but is registered after DistanceEdge: the first registered type wins."""

    KIND = "distance_late"


CUSTOM_G2O_TYPES = [DistanceEdge, PointPriorXY, VisualRange, PriorTagP, DistanceEdgeLate]
