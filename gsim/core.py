"""Seed derivation, event log, digests, float encoding, result record.

Nothing in here reads a real clock or an unseeded PRNG.
"""

import hashlib
import json
import math
import random
import zlib

MASK64 = (1 << 64) - 1


def splitmix64(x):
    x = (x + 0x9E3779B97F4A7C15) & MASK64
    z = x
    z = ((z ^ (z >> 30)) * 0xBF58476D1CE4E5B9) & MASK64
    z = ((z ^ (z >> 27)) * 0x94D049BB133111EB) & MASK64
    return z ^ (z >> 31)


def run_seed(base, property_id, tier, index):
    """One integer per run: a pure function of (VERIF_SEED, property, tier, index)."""
    x = splitmix64(base & MASK64)
    x = splitmix64(x ^ zlib.crc32(property_id.encode()))
    x = splitmix64(x ^ zlib.crc32(tier.encode()))
    x = splitmix64(x ^ (index & MASK64))
    return x


def make_rng(seed):
    return random.Random(seed)


# --------------------------------------------------------------------------- #
# float <-> JSON (bit exact)
# --------------------------------------------------------------------------- #
def fx(x):
    """float -> hex string (bit exact, NaN/inf safe)."""
    x = float(x)
    if math.isnan(x):
        return "nan"
    if math.isinf(x):
        return "inf" if x > 0 else "-inf"
    return x.hex()


def xf(s):
    """hex string (or plain number) -> float."""
    if isinstance(s, (int, float)):
        return float(s)
    if s in ("nan", "inf", "-inf"):
        return float(s)
    return float.fromhex(s)


def fxl(seq):
    return [fx(v) for v in seq]


def xfl(seq):
    return [xf(v) for v in seq]


def fxm(mat):
    return [[fx(v) for v in row] for row in mat]


def xfm(mat):
    return [[xf(v) for v in row] for row in mat]


# --------------------------------------------------------------------------- #
# Event log
# --------------------------------------------------------------------------- #
class EventLog:
    """In-memory list of seam events; hashed at the end (the *event digest*).

    Appending never draws from a PRNG and never reads a real clock.
    """

    def __init__(self):
        self.events = []
        self.op_index = -1
        self.seq = 0

    def add(self, sim_time, seam, action, size, outcome):
        self.seq += 1
        self.events.append((self.seq, round(sim_time, 9), self.op_index, seam, action, size, outcome))

    def note(self, kind, payload):
        """Harness-level record (op results, oracle summaries); also hashed."""
        self.seq += 1
        self.events.append((self.seq, None, self.op_index, "harness", kind, None, payload))

    def digest(self):
        h = hashlib.sha256()
        for ev in self.events:
            h.update(json.dumps(ev, sort_keys=True, default=str).encode())
            h.update(b"\n")
        return "sha256:" + h.hexdigest()

    def dump(self, limit=None):
        evs = self.events if limit is None else self.events[:limit]
        return [list(e) for e in evs]


# --------------------------------------------------------------------------- #
# Result of executing one case
# --------------------------------------------------------------------------- #
class Violation(Exception):
    """Raised by an oracle; carries a short class string and a detail."""

    def __init__(self, vclass, detail):
        super().__init__(vclass + ": " + detail)
        self.vclass = vclass
        self.detail = detail


class Result:
    __slots__ = (
        "violations",
        "digest",
        "signature",
        "nontrivial",
        "probes",
        "faults_fired",
        "faults_planned",
        "outcomes",
        "sim_time",
        "n_events",
        "n_checks",
        "seam_counts",
        "known",
        "counts",
        "events",
    )

    def __init__(self):
        self.violations = []  # list of {"class":..., "detail":...}
        self.digest = None
        self.signature = None
        self.nontrivial = False
        self.probes = {}
        self.faults_fired = {}
        self.faults_planned = 0
        self.outcomes = {}
        self.sim_time = 0.0
        self.n_events = 0
        self.n_checks = 0
        self.seam_counts = {}
        self.known = []
        self.counts = {}
        self.events = None

    def probe(self, name, n=1):
        self.probes[name] = self.probes.get(name, 0) + n

    def fired(self, kind, n=1):
        self.faults_fired[kind] = self.faults_fired.get(kind, 0) + n

    def outcome(self, name, n=1):
        self.outcomes[name] = self.outcomes.get(name, 0) + n

    def violate(self, vclass, detail):
        self.violations.append({"class": vclass, "detail": detail})

    def summary(self):
        return {
            "violations": self.violations,
            "digest": self.digest,
            "signature": self.signature,
            "nontrivial": self.nontrivial,
            "probes": self.probes,
            "faults_fired": self.faults_fired,
            "faults_planned": self.faults_planned,
            "outcomes": self.outcomes,
            "sim_time": self.sim_time,
            "n_events": self.n_events,
            "n_checks": self.n_checks,
            "seam_counts": self.seam_counts,
        }


def sig_hash(obj):
    return hashlib.sha1(json.dumps(obj, sort_keys=True, default=str).encode()).hexdigest()[:16]


def ulp(x):
    return math.ulp(x)
