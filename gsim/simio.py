"""Shared pieces of the stream-I/O engines (C13, C14): value generators, structural comparator."""

import math

import numpy as np

from graphslam.edge.edge_landmark import EdgeLandmark
from graphslam.edge.edge_odometry import EdgeOdometry
from graphslam.pose.base_pose import BasePose

from . import graphs
from .core import fx, xf

EPS = float(np.finfo(float).eps)
ULP_PI = math.ulp(math.pi)


def wide_float(rng, cls=None):
    """A finite double from a wide mix of magnitudes (1e-300 .. 1e300)."""
    cls = cls or rng.choice(["unit", "unit", "moderate", "moderate", "huge", "tiny", "int", "zero", "ugly"])
    if cls == "unit":
        return rng.uniform(-1, 1)
    if cls == "moderate":
        return rng.uniform(-1000, 1000)
    if cls == "huge":
        return rng.choice([-1, 1]) * 10.0 ** rng.uniform(100, 300)
    if cls == "tiny":
        return rng.choice([-1, 1]) * 10.0 ** rng.uniform(-300, -100)
    if cls == "int":
        return float(rng.randint(-100, 100))
    if cls == "zero":
        return rng.choice([0.0, -0.0])
    # "ugly": results of arithmetic, 17 significant digits
    return math.fsum([rng.uniform(-1, 1) for _ in range(3)]) / 3.0 * 10.0 ** rng.randint(-5, 5)


def unit_quat(rng, w_negative=None):
    while True:
        q = np.array([rng.gauss(0, 1) for _ in range(4)])
        n = float(np.linalg.norm(q))
        if n > 1e-3:
            break
    q = q / n
    q = q / float(np.linalg.norm(q))
    if w_negative is None:
        w_negative = rng.random() < 0.5
    if (q[3] < 0) != w_negative:
        q = -q
    r = rng.random()
    if r < 0.05:
        q = np.array([0.0, 0.0, 0.0, -1.0 if w_negative else 1.0])
    elif r < 0.1:
        axis = rng.randrange(3)
        q = np.zeros(4)
        q[axis] = 1.0  # 180 degrees, w == 0
    return [float(x) for x in q]


def spd_information(rng, n, cross=True, max_cond=1e8):
    kind = rng.choice(["identity", "diag", "spd", "spd", "spd"]) if cross else rng.choice(["identity", "diag"])
    if kind == "identity":
        return np.eye(n)
    if kind == "diag":
        return np.diag([10.0 ** rng.uniform(-3, 6) for _ in range(n)])
    a = np.array([[rng.gauss(0, 1) for _ in range(n)] for _ in range(n)])
    q, _ = np.linalg.qr(a)
    d = [10.0 ** rng.uniform(-2, math.log10(max_cond) - 2) for _ in range(n)]
    m = q @ np.diag(d) @ q.T
    m = (m + m.T) / 2.0
    return m


# --------------------------------------------------------------------------- #
# structural comparison of two graph specs (written from scratch; does not call equals)
# --------------------------------------------------------------------------- #
def _floats(hexes):
    return [xf(h) for h in hexes]


def cmp_floats_bitwise(a, b):
    """a, b: lists of hex strings.  -> index of first difference or -1."""
    for k, (x, y) in enumerate(zip(a, b)):
        if x != y:
            fx_, fy = xf(x), xf(y)
            if fx_ == fy and fx_ != 0.0:
                continue
            if math.isnan(fx_) and math.isnan(fy):
                continue
            return k
    return -1 if len(a) == len(b) else min(len(a), len(b))


def angle_equiv(a, b, cycles=1):
    """SE(2) angle exemption: equal modulo 2*pi, within 4 ulp(pi) per cycle."""
    if a == b or (math.isnan(a) and math.isnan(b)):
        return True
    if not (math.isfinite(a) and math.isfinite(b)):
        return False
    return graphs.ang_diff(a, b) <= 4 * ULP_PI * max(1, cycles)


def rotation_equiv(qa, qb, cycles=1):
    """Quaternion exemption for SE(3) *measurements*: same rotation, q == -q, within 8 eps per cycle."""
    qa = np.array(qa, dtype=np.float64)
    qb = np.array(qb, dtype=np.float64)
    if not (np.all(np.isfinite(qa)) and np.all(np.isfinite(qb))):
        return False
    na = float(np.linalg.norm(qa))
    nb = float(np.linalg.norm(qb))
    if na == 0 or nb == 0:
        return False
    d1 = float(np.max(np.abs(qa / na - qb / nb)))
    # renormalisation may change the last bits; it does not change the sign (q and -q are the same rotation, but the
    # sign of the rotational error -- and chi^2 with translation-rotation cross terms -- depends on it: finding F5)
    return d1 <= 8 * EPS * max(1, cycles)


def same_sign_quat(qa, qb):
    qa = np.array(qa, dtype=np.float64)
    qb = np.array(qb, dtype=np.float64)
    return float(np.dot(qa, qb)) >= 0.0


STRICT_ANGLES = [False]


def cmp_pose(sa, sb, cycles=1, measurement=False):
    """Compare two pose specs.  Returns None if equal under the stated exemptions, else a message."""
    if (sa is None) != (sb is None):
        return "one side has no pose"
    if sa is None:
        return None
    if sa["t"] != sb["t"]:
        return "pose type %s vs %s" % (sa["t"], sb["t"])
    a, b = sa["v"], sb["v"]
    if len(a) != len(b):
        return "length %d vs %d" % (len(a), len(b))
    t = sa["t"]
    if t == "SE2":
        k = cmp_floats_bitwise(a[:2], b[:2])
        if k >= 0:
            return "component %d: %r vs %r" % (k, xf(a[k]), xf(b[k]))
        if STRICT_ANGLES[0]:
            # a stored angle is already in [-pi, pi]: it is written and read back exactly; only +pi may come back as -pi
            x, y = xf(a[2]), xf(b[2])
            if not (x == y or (math.isnan(x) and math.isnan(y)) or (abs(x) == math.pi and abs(y) == math.pi)):
                return "angle %r vs %r (a stored angle must round-trip exactly)" % (x, y)
            return None
        if not angle_equiv(xf(a[2]), xf(b[2]), cycles):
            return "angle %r vs %r (not congruent within %d*4 ulp(pi))" % (xf(a[2]), xf(b[2]), cycles)
        return None
    if t == "SE3" and measurement:
        k = cmp_floats_bitwise(a[:3], b[:3])
        if k >= 0:
            return "component %d: %r vs %r" % (k, xf(a[k]), xf(b[k]))
        if not rotation_equiv(_floats(a[3:]), _floats(b[3:]), cycles):
            return "quaternion %r vs %r is not the same rotation to 8 eps" % (_floats(a[3:]), _floats(b[3:]))
        return None
    k = cmp_floats_bitwise(a, b)
    if k >= 0:
        return "component %d: %r vs %r" % (k, xf(a[k]), xf(b[k]))
    return None


def cmp_estimate(sa, sb, cycles=1):
    if sa["t"] in ("scalar", "arr") or sb["t"] in ("scalar", "arr"):
        if sa["t"] != sb["t"]:
            return "estimate kind %s vs %s" % (sa["t"], sb["t"])
        va = [sa["v"]] if sa["t"] == "scalar" else sa["v"]
        vb = [sb["v"]] if sb["t"] == "scalar" else sb["v"]
        k = cmp_floats_bitwise(va, vb)
        return None if k < 0 else "estimate component %d differs" % k
    return cmp_pose(sa, sb, cycles, measurement=True)


def cmp_matrix(ma, mb):
    if len(ma) != len(mb):
        return "shape %d vs %d" % (len(ma), len(mb))
    for i, (ra, rb) in enumerate(zip(ma, mb)):
        k = cmp_floats_bitwise(ra, rb)
        if k >= 0:
            return "entry (%d,%d): %r vs %r" % (i, k, xf(ra[k]), xf(rb[k]))
    return None


EDGE_CLASS = {"odometry": "odometry", "numeric_odometry": "odometry", "landmark": "landmark", "numeric_landmark": "landmark",
              "robust_odometry_se2": "robust_odometry_se2"}


def cmp_graph_specs(a, b, cycles=1, check_params=True, strict_angles=False):
    STRICT_ANGLES[0] = strict_angles
    try:
        return _cmp_graph_specs(a, b, cycles, check_params)
    finally:
        STRICT_ANGLES[0] = False


def _cmp_graph_specs(a, b, cycles=1, check_params=True):
    """Field-by-field comparison of two workload specs (exported vs imported).

    Not compared (the format has no field for them): Vertex.fixed, the offset_id of 2-D landmark edges.
    """
    va, vb = a["vertices"], b["vertices"]
    if len(va) != len(vb):
        return "vertices", "%d vertices exported, %d imported" % (len(va), len(vb))
    for k, (x, y) in enumerate(zip(va, vb)):
        if x["id"] != y["id"] or type(x["id"]) is not type(y["id"]):
            return "vertex-id", "vertex #%d id %r vs %r" % (k, x["id"], y["id"])
        m = cmp_pose(x["pose"], y["pose"], cycles)
        if m:
            return "vertex-pose", "vertex #%d (id %d, %s): %s" % (k, x["id"], x["pose"]["t"], m)
    ea, eb = a["edges"], b["edges"]
    if len(ea) != len(eb):
        return "edges", "%d edges exported, %d imported" % (len(ea), len(eb))
    for k, (x, y) in enumerate(zip(ea, eb)):
        if EDGE_CLASS.get(x["kind"], x["kind"]) != EDGE_CLASS.get(y["kind"], y["kind"]):
            return "edge-type", "edge #%d kind %s vs %s" % (k, x["kind"], y["kind"])
        if list(x["ids"]) != list(y["ids"]):
            return "edge-ids", "edge #%d ids %r vs %r" % (k, x["ids"], y["ids"])
        m = cmp_estimate(x["estimate"], y["estimate"], cycles)
        if m:
            return "edge-estimate", "edge #%d (%s %r): %s" % (k, x["kind"], x["ids"], m)
        m = cmp_matrix(x["information"], y["information"])
        if m:
            return "edge-information", "edge #%d (%s %r): information %s" % (k, x["kind"], x["ids"], m)
        if EDGE_CLASS.get(x["kind"]) == "landmark":
            m = cmp_pose(x.get("offset"), y.get("offset"), cycles)
            if m:
                return "edge-offset", "edge #%d (%s %r): offset %s" % (k, x["kind"], x["ids"], m)
            if x["offset"] is not None and x["offset"]["t"] == "SE3" and x.get("offset_id") != y.get("offset_id"):
                return "edge-offset-id", "edge #%d (%s %r): offset_id %r vs %r" % (k, x["kind"], x["ids"], x.get("offset_id"), y.get("offset_id"))
    if check_params:
        pa = a.get("params") or []
        pb = b.get("params") or []
        if [p["key"] for p in pa] != [p["key"] for p in pb]:
            return "params-keys", "parameter keys %r vs %r" % ([p["key"] for p in pa], [p["key"] for p in pb])
        for x, y in zip(pa, pb):
            m = cmp_pose(x["v"], y["v"], cycles)
            if m:
                return "params-value", "parameter %r: %s" % (x["key"], m)
    return None


def chi2_class(c):
    c = float(c)
    if math.isnan(c):
        return "nan"
    if math.isinf(c):
        return "inf"
    return "finite"
