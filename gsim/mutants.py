"""Sensitivity self-test: seeded one-line mutants of graphslam, run against the owning check.

  check selftest mutants [--with-tests] [--tier quick] [IDs or mutant names...]

Every mutant is applied to a scratch copy of /repo (outside /repo and /verif), the
owning property's check is run against that copy (GSIM_REPO) with its output
redirected (GSIM_OUT), a VIOLATION is expected, and the copy is deleted.  With
--with-tests the repo's own test-suite is also run on the mutant to learn whether
it is a "change that still passes the tests".
"""

import json
import os
import shutil
import subprocess
import sys
import tempfile

from . import runner

G = "graphslam/graph.py"
BE = "graphslam/edge/base_edge.py"
EO = "graphslam/edge/edge_odometry.py"
EL = "graphslam/edge/edge_landmark.py"
VX = "graphslam/vertex.py"
UT = "graphslam/util.py"
LD = "graphslam/load.py"
PR = "graphslam/g2o_parameters.py"
SE2 = "graphslam/pose/se2.py"
SE3 = "graphslam/pose/se3.py"
R2 = "graphslam/pose/r2.py"
BP = "graphslam/pose/base_pose.py"

FIXED_SET = """        if fix_first_pose:
            self._vertices[0].fixed = True

        # Populate the set of fixed gradient indices
        self._fixed_gradient_indices = {v.gradient_index for v in self._vertices if v.fixed}
"""

MUTANTS = [
    # ------------------------------------------------------------------ C06
    ("C06", "gradient_guard_dropped", G, "            if gradient_idx not in self._fixed_gradient_indices:", "            if True:"),
    ("C06", "fixed_offdiag_continue_dropped", G, "                    # fmt: on\n                continue\n", "                    # fmt: on\n                    continue\n"),
    ("C06", "fix_last_vertex", G, "            self._vertices[0].fixed = True", "            self._vertices[-1].fixed = True"),
    ("C06", "fix_lowest_id_vertex", G, "            self._vertices[0].fixed = True", "            min(self._vertices, key=lambda v: v.id).fixed = True"),
    ("C06", "fixed_set_before_first_flag", G, FIXED_SET,
     """        # Populate the set of fixed gradient indices
        self._fixed_gradient_indices = {v.gradient_index for v in self._vertices if v.fixed}

        if fix_first_pose:
            self._vertices[0].fixed = True
"""),
    ("C06", "stale_fixed_set_kept", G, "        self._fixed_gradient_indices = {v.gradient_index for v in self._vertices if v.fixed}",
     "        self._fixed_gradient_indices |= {v.gradient_index for v in self._vertices if v.fixed}"),
    ("C06", "first_flag_cleared_on_return", G, "        ret.num_iterations = max_iter\n", "        ret.num_iterations = max_iter\n        if fix_first_pose:\n            self._vertices[0].fixed = False\n"),
    ("C06", "revert_F1_dx_applied_to_fixed", G, "                if v.gradient_index in self._fixed_gradient_indices:\n                    continue\n", "                pass\n"),
    ("C06", "revert_F2_no_identity_for_isolated", G, "            if v.gradient_index in self._fixed_gradient_indices:\n                n = v.pose.COMPACT_DIMENSIONALITY",
     "            if False:\n                n = v.pose.COMPACT_DIMENSIONALITY"),
    ("C06", "fix_first_only_on_first_call", G, "        if fix_first_pose:\n            self._vertices[0].fixed = True", "        if fix_first_pose and self._chi2 is None:\n            self._vertices[0].fixed = True"),
    # ------------------------------------------------------------------ C12
    ("C12", "num_iterations_off_by_one", G, "                    ret.num_iterations = i\n", "                    ret.num_iterations = i + 1\n"),
    ("C12", "tol_le_instead_of_lt", G, "                if self._chi2 <= chi2_prev and rel_diff < tol:", "                if self._chi2 <= chi2_prev and rel_diff <= tol:"),
    ("C12", "chi2_lt_instead_of_le", G, "                if self._chi2 <= chi2_prev and rel_diff < tol:", "                if self._chi2 < chi2_prev and rel_diff < tol:"),
    ("C12", "not_increased_clause_dropped", G, "                if self._chi2 <= chi2_prev and rel_diff < tol:", "                if rel_diff < tol:"),
    ("C12", "abs_rel_diff", G, "                if self._chi2 <= chi2_prev and rel_diff < tol:", "                if abs(rel_diff) < tol:"),
    ("C12", "final_chi2_from_previous_iteration", G, "                    ret.final_chi2 = self._chi2\n                    ret.iteration_results[-1].duration_s", "                    ret.final_chi2 = chi2_prev\n                    ret.iteration_results[-1].duration_s"),
    ("C12", "no_final_calc_chi2", G, "        self.calc_chi2()\n        rel_diff", "        rel_diff"),
    ("C12", "hidden_chi2_prev_across_calls", G, ["        chi2_prev = -1.0\n", "            if i > 0:\n                rel_diff"],
     ["        chi2_prev = self._chi2 if self._chi2 is not None else -1.0\n", "            if chi2_prev >= 0.0:\n                rel_diff"]),
    ("C12", "verbose_changes_tolerance", G, "                if self._chi2 <= chi2_prev and rel_diff < tol:", "                if self._chi2 <= chi2_prev and rel_diff < (tol * 10 if verbose else tol):"),
    ("C12", "duration_in_stopping_test", G, "                if self._chi2 <= chi2_prev and rel_diff < tol:", "                if self._chi2 <= chi2_prev and (rel_diff < tol or time.time() - start_time > 60.0):"),
    ("C12", "complete_iteration_by_truthiness", G, "            return self.solve_duration_s is not None", "            return bool(self.solve_duration_s)"),
    ("C12", "converged_at_max_iter_always_false", G, "        ret.converged = self._chi2 <= chi2_prev and rel_diff < tol", "        ret.converged = False"),
    ("C12", "initial_chi2_after_first_update", G, "                ret.initial_chi2 = self._chi2\n", "                ret.initial_chi2 = self.calc_chi2()\n"),
    ("C12", "iteration_chi2_shifted", G, "                ret.iteration_results[-2].chi2 = self._chi2\n", "                ret.iteration_results[-2].chi2 = chi2_prev\n"),
    ("C12", "max_iter_loop_off_by_one", G, "        for i in range(max_iter):", "        for i in range(max_iter if tol > 0 else max(1, max_iter - 1)):"),
    ("C12", "quiet_mode_skips_final_chi2", G, "        self.calc_chi2()\n        rel_diff", "        if verbose:\n            self.calc_chi2()\n        rel_diff"),
    # ------------------------------------------------------------------ C15
    ("C15", "numeric_jacobian_no_restore", BE, "            self.vertices[vertex_index].pose = p0.copy()\n", "            pass\n"),
    ("C15", "numeric_jacobian_restore_wrong_index", BE, "            self.vertices[vertex_index].pose = p0.copy()\n", "            self.vertices[0].pose = p0.copy()\n"),
    ("C15", "iadd_in_place", BP, "        return self + other\n", "        self[:] = self + other\n        return self\n"),
    ("C15", "r2_copy_is_view", R2, "        return PoseR2([self[0], self[1]])", "        return PoseR2(self)"),
    ("C15", "se2_to_array_is_view", SE2, "    def to_array(self):\n        \"\"\"Return the pose as a numpy array.\n\n        Returns\n        -------\n        np.ndarray\n            The pose as a numpy array\n\n        \"\"\"\n        return np.array(self)",
     "    def to_array(self):\n        \"\"\"Return the pose as a numpy array.\n\n        Returns\n        -------\n        np.ndarray\n            The pose as a numpy array\n\n        \"\"\"\n        return np.asarray(self)"),
    ("C15", "se3_position_is_view", SE3, "        return np.array(self[:3])", "        return np.asarray(self[:3])"),
    ("C15", "information_returned_as_hessian_block", BE,
     "np.dot(np.dot(np.transpose(jacobians[i]), self.information), jacobians[j])) for i in range(len(jacobians)) for j in range(i, len(jacobians))],",
     "(self.information if (i == j and jacobians[i].shape == self.information.shape and np.array_equal(jacobians[i], np.eye(len(self.information)))) else np.dot(np.dot(np.transpose(jacobians[i]), self.information), jacobians[j]))) for i in range(len(jacobians)) for j in range(i, len(jacobians))],"),
    ("C15", "landmark_error_cached_buffer", EL, "        return (((self.vertices[0].pose + self.offset).inverse + self.vertices[1].pose) - self.estimate).to_compact()",
     "        key = (self.vertices[0].pose.tobytes(), self.vertices[1].pose.tobytes())\n        if getattr(self, \"_err_key\", None) != key:\n            self._err_key = key\n            self._err = (((self.vertices[0].pose + self.offset).inverse + self.vertices[1].pose) - self.estimate).to_compact()\n        return self._err"),
    ("C15", "optimize_normalizes_estimates", G, "        # Previous iteration's chi^2 error\n        chi2_prev = -1.0\n",
     "        for e in self._edges:\n            if hasattr(e.estimate, \"normalize\"):\n                e.estimate.normalize()\n\n        # Previous iteration's chi^2 error\n        chi2_prev = -1.0\n"),
    ("C15", "optimize_symmetrizes_information", G, "        # Previous iteration's chi^2 error\n        chi2_prev = -1.0\n",
     "        for e in self._edges:\n            e.information = (e.information + np.transpose(e.information)) / 2.0 + 0.0\n            e.information[0, 0] *= 1.0 + 1e-15\n\n        # Previous iteration's chi^2 error\n        chi2_prev = -1.0\n"),
    ("C15", "equals_normalizes_operand", SE3, "    def normalize(self):\n        \"\"\"Normalize the quaternion portion of the pose.\"\"\"\n",
     "    def equals(self, other, tol=1e-6):\n        \"\"\"Compare after normalizing.\"\"\"\n        other.normalize()\n        return np.linalg.norm(self.to_array() - other.to_array()) / max(np.linalg.norm(self.to_array()), tol) < tol\n\n    def normalize(self):\n        \"\"\"Normalize the quaternion portion of the pose.\"\"\"\n"),
    ("C15", "to_g2o_sorts_vertices", G, "        for v in self._vertices:\n            lines.append(v.to_g2o())", "        self._vertices.sort(key=lambda v: v.id)\n        for v in self._vertices:\n            lines.append(v.to_g2o())"),
    # ------------------------------------------------------------------ C13
    ("C13", "vertex_se2_six_decimals", VX, "            return \"VERTEX_SE2 {} {} {} {}\\n\".format(", "            return \"VERTEX_SE2 {} {:.6f} {:.6f} {:.6f}\\n\".format("),
    ("C13", "edge_se2_info_15g", EO, "self.estimate[2]) + \" \".join([str(float(x)) for x in self.information[np.triu_indices(3, 0)]])", "self.estimate[2]) + \" \".join([\"{:.15g}\".format(x) for x in self.information[np.triu_indices(3, 0)]])"),
    ("C13", "landmark_info_repr", EL, "self.estimate[2]) + \" \".join([str(float(x)) for x in self.information[np.triu_indices(3, 0)]])", "self.estimate[2]) + \" \".join([repr(x) for x in self.information[np.triu_indices(3, 0)]])"),
    ("C13", "edge_se3_info_column_major", EO, "self.information[np.triu_indices(6, 0)]", "self.information[np.tril_indices(6, 0)]"),
    ("C13", "trackxyz_offset_id_dropped", EL, "self.vertex_ids[1], self.offset_id, self.estimate[0]", "self.vertex_ids[1], 0, self.estimate[0]"),
    ("C13", "params_written_after_edges", G,
     "        lines = []\n        if self._g2o_params:\n            for g2o_param in self._g2o_params.values():\n                lines.append(g2o_param.to_g2o())\n",
     "        lines = []\n        tail = []\n        if self._g2o_params:\n            for g2o_param in self._g2o_params.values():\n                tail.append(g2o_param.to_g2o())\n"),
    ("C13", "params_written_after_edges_2", G,
     ["        lines = []\n        if self._g2o_params:\n            for g2o_param in self._g2o_params.values():\n                lines.append(g2o_param.to_g2o())\n", "            for line in lines:\n                f.write(line)\n"],
     ["        lines = []\n        tail = []\n        if self._g2o_params:\n            for g2o_param in self._g2o_params.values():\n                tail.append(g2o_param.to_g2o())\n", "            for line in lines + tail:\n                f.write(line)\n"]),
    ("C13", "export_append_mode", G, "        with open(outfile, \"w\") as f:", "        with open(outfile, \"a\") as f:"),
    ("C13", "export_swallows_oserror", G, "            for line in lines:\n                f.write(line)\n",
     "            for line in lines:\n                try:\n                    f.write(line)\n                except OSError:\n                    break\n"),
    ("C13", "vertex_id_via_float", VX, "            p = PoseSE2(arr[:2], arr[2])\n            return cls(int(numbers[0]), p)", "            p = PoseSE2(arr[:2], arr[2])\n            return cls(int(float(numbers[0])), p)"),
    ("C13", "revert_F3_2d_offset_dropped", EL, "            if np.any(self.offset.to_array() != 0.0):", "            if False:"),
    ("C13", "revert_F4_missing_param_written", G, "                if param is None or not np.array_equal(param.value.to_array(), e.offset.to_array()):", "                if False:"),
    ("C13", "revert_F5_measurement_sign_flipped", EO, "            estimate[3:] /= np.linalg.norm(estimate[3:])", "            estimate.normalize()"),
    ("C13", "f3_check_with_tolerance", EL, "            if np.any(self.offset.to_array() != 0.0):", "            if not self.offset.equals(PoseSE2.identity()):"),
    ("C13", "vertex_se3_float32", VX, "            return \"VERTEX_SE3:QUAT {} {} {} {} {} {} {} {}\\n\".format(\n                self.id,\n                self.pose[0],", "            return \"VERTEX_SE3:QUAT {} {} {} {} {} {} {} {}\\n\".format(\n                self.id,\n                np.float32(self.pose[0]),"),
    ("C13", "params_se3_written_qw_first", PR, "            self.value[3],\n            self.value[4],\n            self.value[5],\n            self.value[6],\n        )", "            self.value[6],\n            self.value[3],\n            self.value[4],\n            self.value[5],\n        )"),
    ("C13", "export_skips_duplicate_edges", G, "            if edge_str_or_none:\n                lines.append(edge_str_or_none)\n",
     "            if edge_str_or_none and edge_str_or_none not in lines:\n                lines.append(edge_str_or_none)\n"),
    ("C13", "revert_F11_refusal_after_truncation", G, '        lines = []\n        if self._g2o_params:\n            for g2o_param in self._g2o_params.values():\n                lines.append(g2o_param.to_g2o())\n\n        for v in self._vertices:\n            lines.append(v.to_g2o())\n\n        for e in self._edges:\n            edge_str_or_none = e.to_g2o()\n            if edge_str_or_none:\n                lines.append(edge_str_or_none)\n\n        with open(outfile, "w") as f:\n            for line in lines:\n                f.write(line)\n', '        with open(outfile, "w") as f:\n            if self._g2o_params:\n                for g2o_param in self._g2o_params.values():\n                    f.write(g2o_param.to_g2o())\n\n            for v in self._vertices:\n                f.write(v.to_g2o())\n\n            for e in self._edges:\n                edge_str_or_none = e.to_g2o()\n                if edge_str_or_none:\n                    f.write(edge_str_or_none)\n'),
    ("C06", "revert_F10_lil_matrix_to_spsolve", G, "spsolve(self._hessian.tocsc(), -self._gradient)", "spsolve(self._hessian, -self._gradient)"),
    ("C12", "revert_F10_lil_matrix_to_spsolve", G, "spsolve(self._hessian.tocsc(), -self._gradient)", "spsolve(self._hessian, -self._gradient)"),
    # ------------------------------------------------------------------ C14
    ("C14", "vertex_se2_prefix_without_space", VX, "        if line.startswith(\"VERTEX_SE2 \"):", "        if line.startswith(\"VERTEX_SE2\"):"),
    ("C14", "edge_se2_prefix_without_space", EO, "        if line.startswith(\"EDGE_SE2 \"):", "        if line.startswith(\"EDGE_SE2\") and not line.startswith(\"EDGE_SE2_XY\"):"),
    ("C14", "landmark2d_info_upper_only", EL, "            information = upper_triangular_matrix_to_full_matrix(arr[2:], 2)", "            information = np.array([[arr[2], arr[3]], [0.0, arr[4]]])"),
    ("C14", "offset_by_position_not_id", EL, "            offset = g2o_params_or_none[(\"PARAMS_SE3OFFSET\", offset_id)].value", "            offset = [p for k, p in g2o_params_or_none.items() if k[0] == \"PARAMS_SE3OFFSET\"][0].value"),
    ("C14", "break_on_junk_line", G, "                    _LOGGER.warning(\"Line not supported -- '%s'\", line.rstrip())", "                    _LOGGER.warning(\"Line not supported -- '%s'\", line.rstrip())\n                    break"),
    ("C14", "blank_test_without_strip", G, "                if line.strip():", "                if line != \"\\n\":"),
    ("C14", "load_r2_drops_params", LD, "    _LOGGER.warning(\"load_g2o_r2 is deprecated; use Graphload_g2o instead\")\n    return Graph.from_g2o(infile)",
     "    _LOGGER.warning(\"load_g2o_r2 is deprecated; use Graphload_g2o instead\")\n    ret = Graph.from_g2o(infile)\n    ret._g2o_params = None\n    return ret"),
    ("C14", "load_se2_filters_edges", LD, "    _LOGGER.warning(\"load_g2o_se2 is deprecated; use Graph.load_g2o instead\")\n    return Graph.from_g2o(infile)",
     "    _LOGGER.warning(\"load_g2o_se2 is deprecated; use Graph.load_g2o instead\")\n    ret = Graph.from_g2o(infile)\n    ret._edges = [e for e in ret._edges if len(e.information) == 3]\n    return ret"),
    ("C14", "warning_for_params_lines", G, "                        g2o_params[param_or_none.key] = param_or_none\n                        continue\n", "                        g2o_params[param_or_none.key] = param_or_none\n"),
    ("C14", "se2_offset_param_xy_swapped", PR, "PoseSE2([arr[0], arr[1]], arr[2]))", "PoseSE2([arr[1], arr[0]], arr[2]))"),
    ("C14", "vertex_ids_via_float", VX, "            p = PoseR2(arr)\n            return cls(int(numbers[0]), p)", "            p = PoseR2(arr)\n            return cls(int(float(numbers[0])), p)"),
    ("C14", "readlines_drops_last_unterminated_line", G, "            for line in f.readlines():", "            for line in [ln for ln in f.readlines() if ln.endswith(\"\\n\")]:"),
    ("C14", "edges_sorted_by_type", G, "        ret = cls(edges, vertices)\n        ret._g2o_params = g2o_params", "        edges.sort(key=lambda e: type(e).__name__)\n        ret = cls(edges, vertices)\n        ret._g2o_params = g2o_params"),
    ("C14", "numbers_split_on_single_space", VX, "            numbers = line[len(\"VERTEX_TRACKXYZ \"):].split()  # fmt: skip", "            numbers = [n for n in line[len(\"VERTEX_TRACKXYZ \"):].strip().split(\" \")]  # fmt: skip"),
    ("C14", "edge_se3_info_rounded", EO, "            information = upper_triangular_matrix_to_full_matrix(arr[7:], 6)", "            information = upper_triangular_matrix_to_full_matrix(arr[7:], 6).round(12)"),
    # ------------------------------------------------------------------ C11
    ("C11", "se2_boxplus_without_wrap", SE2,
     "        if isinstance(other, PoseSE2) or (isinstance(other, np.ndarray) and len(other) == 3):",
     "        if not isinstance(other, PoseSE2) and isinstance(other, np.ndarray) and len(other) == 3:\n            return np.array([self[0] + other[0] * np.cos(self[2]) - other[1] * np.sin(self[2]), self[1] + other[0] * np.sin(self[2]) + other[1] * np.cos(self[2]), self[2] + other[2]]).view(PoseSE2)\n\n        if isinstance(other, PoseSE2) or (isinstance(other, np.ndarray) and len(other) == 3):"),
    ("C11", "wrap_single_period_only", UT, "    return (angle + np.pi) % (TWO_PI) - np.pi", "    return angle - TWO_PI if angle >= np.pi else (angle + TWO_PI if angle < -np.pi else (angle + np.pi) % (TWO_PI) - np.pi)"),
    ("C11", "boxplus_qw_sqrt_one_minus_norm", SE3, "                    qw = np.sqrt(1.0 - qnorm**2)", "                    qw = np.sqrt(1.0 - qnorm)"),
    ("C11", "boxplus_guard_loosened", SE3, "                if qnorm > 1.0:", "                if qnorm > 1.0 + 1e-9:"),
    ("C11", "boxplus_guard_removed", SE3, "                if qnorm > 1.0:", "                if False:"),
    ("C11", "boxplus_big_step_scaled_not_identity", SE3, "                    qw, qx, qy, qz = 1.0, 0.0, 0.0, 0.0", "                    qw = 0.0\n                    qx, qy, qz = other[3:] / (qnorm * (1.0 + 1e-7))"),
    ("C11", "normalize_without_sign", SE3, "        sgn = 1.0 if self[6] >= 0.0 else -1.0", "        sgn = 1.0"),
    ("C11", "normalize_vector_part_only", SE3, "        self[3:] /= sgn * np.linalg.norm(self[3:])", "        self[3:6] /= sgn * np.linalg.norm(self[3:])"),
    ("C11", "sub_w_component_typo", SE3, "other[6] * self[6] + other[3] * self[3] + other[4] * self[4] + other[5] * self[5]])", "other[6] * self[6] + other[3] * self[3] + other[4] * self[4] - other[5] * self[5]])"),
    ("C11", "se2_sub_without_wrap", SE2,
     "        return PoseSE2([(self[0] - other[0]) * np.cos(other[2]) + (self[1] - other[1]) * np.sin(other[2]),\n                        (other[0] - self[0]) * np.sin(other[2]) + (self[1] - other[1]) * np.cos(other[2])],\n                       self[2] - other[2])",
     "        return np.array([(self[0] - other[0]) * np.cos(other[2]) + (self[1] - other[1]) * np.sin(other[2]),\n                         (other[0] - self[0]) * np.sin(other[2]) + (self[1] - other[1]) * np.cos(other[2]),\n                         self[2] - other[2]]).view(PoseSE2)"),
    ("C11", "from_matrix_acos", SE2, "math.atan2(matrix[1, 0], matrix[0, 0]))", "math.copysign(math.acos(max(-1.0, min(1.0, matrix[0, 0]))), matrix[1, 0]))"),
    ("C11", "revert_F6_wrap_in_input_precision", UT, "    angle = np.float64(angle)\n", "    pass\n"),
    ("C14", "revert_F8_inrange_angle_rewrapped", UT, "    if np.ndim(angle) == 0 and -np.pi <= angle < np.pi:", "    if False:"),
    ("C15", "revert_F8_inrange_angle_rewrapped", UT, "    if np.ndim(angle) == 0 and -np.pi <= angle < np.pi:", "    if False:"),
    ("C13", "revert_F8_inrange_angle_rewrapped", UT, "    if np.ndim(angle) == 0 and -np.pi <= angle < np.pi:", "    if False:"),
    ("C13", "revert_F7_information_str_of_numpy_scalar", EO, "\" \".join([str(float(x)) for x in self.information[np.triu_indices(6, 0)]])", "\" \".join([str(x) for x in self.information[np.triu_indices(6, 0)]])"),
]


def apply_mutant(root, m):
    prop, name, rel, old, new = m
    path = os.path.join(root, rel)
    with open(path) as f:
        s = f.read()
    pairs = list(zip(old, new)) if isinstance(old, (list, tuple)) else [(old, new)]
    for o, n in pairs:
        if s.count(o) < 1:
            raise RuntimeError("mutant %s/%s: pattern not found in %s" % (prop, name, rel))
        s = s.replace(o, n, 1)
    with open(path, "w") as f:
        f.write(s)
    # must still compile
    subprocess.run([sys.executable, "-m", "py_compile", path], check=True, capture_output=True)


def main(table, argv):
    with_tests = "--with-tests" in argv
    tier = "quick"
    names = [a for a in argv if not a.startswith("--")]
    runs_arg = None
    for a in argv:
        if a.startswith("--runs="):
            runs_arg = a.split("=", 1)[1]
    sel = [m for m in MUTANTS if not names or m[0] in names or m[1] in names]
    base = tempfile.mkdtemp(prefix="gsim-mut-", dir=os.environ.get("TMPDIR", "/var/tmp"))
    results = []
    try:
        for m in sel:
            prop, name = m[0], m[1]
            root = os.path.join(base, "repo")
            out = os.path.join(base, "out")
            shutil.rmtree(root, ignore_errors=True)
            shutil.rmtree(out, ignore_errors=True)
            os.makedirs(root)
            os.makedirs(out)
            shutil.copytree("/repo/graphslam", os.path.join(root, "graphslam"), ignore=shutil.ignore_patterns("__pycache__"))
            try:
                apply_mutant(root, m)
            except Exception as e:
                results.append({"property": prop, "mutant": name, "status": "INVALID", "detail": str(e)[:200]})
                print("%-4s %-42s INVALID %s" % (prop, name, str(e)[:120]))
                continue
            env = dict(os.environ, GSIM_REPO=root, GSIM_OUT=out, PYTHONDONTWRITEBYTECODE="1")
            cmd = [os.path.join(runner.VERIF, "check"), prop, "--tier", tier]
            if runs_arg:
                cmd += ["--runs", runs_arg]
            p = subprocess.run(cmd, capture_output=True, text=True, env=env, timeout=1800)
            killed = p.returncode == 1 and "VIOLATION property=%s" % prop in p.stdout
            classes = sorted({ln.split(" -- ")[0].split(": ", 1)[1] for ln in p.stdout.splitlines() if ln.startswith(prop + ": ") and " -- " in ln})
            status = "KILLED" if killed else ("HARNESS" if p.returncode == 2 else "SURVIVED")
            rec = {"property": prop, "mutant": name, "status": status, "classes": classes, "exit": p.returncode}
            if with_tests:
                shutil.copytree("/repo/tests", os.path.join(root, "tests"), ignore=shutil.ignore_patterns("__pycache__"))
                if os.path.isdir("/repo/data"):
                    os.symlink("/repo/data", os.path.join(root, "data"))
                t = subprocess.run([sys.executable, "-m", "pytest", "-q", "-x", "-p", "no:cacheprovider", "-n", "8", "tests"], cwd=root,
                                   capture_output=True, text=True, env=dict(os.environ, PYTHONPATH=root, PYTHONDONTWRITEBYTECODE="1"), timeout=1800)
                rec["tests_pass"] = t.returncode == 0
                tail = t.stdout.strip().splitlines()[-1] if t.stdout.strip() else ""
                rec["tests_tail"] = tail[-120:]
            results.append(rec)
            print("%-4s %-42s %-8s %s%s" % (prop, name, status, ",".join(classes)[:110],
                                          ("  tests_pass=%s" % rec["tests_pass"]) if with_tests else ""))
            if status == "HARNESS":
                print(p.stdout[-1500:] + p.stderr[-1500:])
            sys.stdout.flush()
    finally:
        shutil.rmtree(base, ignore_errors=True)
    killed = sum(1 for r in results if r["status"] == "KILLED")
    print("mutants: %d/%d killed; survived: %s" % (killed, len(results), [r["mutant"] for r in results if r["status"] != "KILLED"]))
    with open(os.path.join(runner.VERIF, "mutants_last.json"), "w") as f:
        json.dump(results, f, indent=1)
    return 0
