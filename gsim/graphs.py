"""Workload graphs: JSON-able specs <-> real graphslam objects, and generators.

A *spec* is a plain dict with every float written as ``float.hex()`` so a
replay is bit exact.  ``build`` constructs brand-new objects through the public
constructors only; ``spec_of_graph`` reads the live state (``_vertices``,
``_edges``, ``_g2o_params`` -- like the repo's own tests do).
"""

import math

import numpy as np

from graphslam.edge.edge_landmark import EdgeLandmark
from graphslam.edge.edge_odometry import EdgeOdometry
from graphslam.g2o_parameters import G2OParameterSE2Offset, G2OParameterSE3Offset
from graphslam.graph import Graph
from graphslam.pose.r2 import PoseR2
from graphslam.pose.r3 import PoseR3
from graphslam.pose.se2 import PoseSE2
from graphslam.pose.se3 import PoseSE3
from graphslam.vertex import Vertex

from . import useredges as ue
from .core import fx, fxl, fxm, xf, xfl, xfm

POSE_TYPES = {"R2": PoseR2, "R3": PoseR3, "SE2": PoseSE2, "SE3": PoseSE3}
POINT_OF = {"SE2": "R2", "SE3": "R3", "R2": "R2", "R3": "R3"}
EDGE_KINDS = {
    "odometry": EdgeOdometry,
    "landmark": EdgeLandmark,
    "numeric_odometry": ue.NumericOdometry,
    "numeric_landmark": ue.NumericLandmark,
    "prior": ue.PriorEdge,
    "numeric_prior": ue.NumericPriorEdge,
    "likelihood_prior": ue.LikelihoodPriorEdge,
    "distance": ue.DistanceEdge,
    "midpoint": ue.MidpointEdge,
    "point_prior_xy": ue.PointPriorXY,
    "visual_range": ue.VisualRange,
    "prior_tag_p": ue.PriorTagP,
    "robust_odometry_se2": ue.RobustOdometrySE2,
    "distance_late": ue.DistanceEdgeLate,
}


def type_name(pose):
    for name, cls in POSE_TYPES.items():
        if type(pose) is cls:
            return name
    for name, cls in POSE_TYPES.items():
        if isinstance(pose, cls):
            return name
    raise TypeError("unknown pose type %r" % type(pose))


def make_pose(t, v):
    if t == "R2":
        return PoseR2([v[0], v[1]])
    if t == "R3":
        return PoseR3([v[0], v[1], v[2]])
    if t == "SE2":
        return PoseSE2([v[0], v[1]], v[2])
    if t == "SE3":
        return PoseSE3([v[0], v[1], v[2]], [v[3], v[4], v[5], v[6]])
    raise ValueError(t)


def pose_from_spec(s):
    if s is None:
        return None
    return make_pose(s["t"], xfl(s["v"]))


def pose_to_spec(p):
    if p is None:
        return None
    return {"t": type_name(p), "v": fxl(np.asarray(p, dtype=np.float64).tolist())}


def estimate_to_spec(est):
    if isinstance(est, tuple(POSE_TYPES.values())):
        return pose_to_spec(est)
    arr = np.asarray(est, dtype=np.float64)
    if arr.ndim == 0:
        return {"t": "scalar", "v": fx(float(arr))}
    return {"t": "arr", "v": fxl(arr.tolist())}


def estimate_from_spec(s):
    if s["t"] == "scalar":
        return xf(s["v"])
    if s["t"] == "arr":
        return np.array(xfl(s["v"]), dtype=np.float64)
    return pose_from_spec(s)


def edge_kind(e):
    for kind, cls in EDGE_KINDS.items():
        if type(e) is cls:
            return kind
    raise TypeError("unknown edge type %r" % type(e))


def edge_to_spec(e):
    s = {
        "kind": edge_kind(e),
        "ids": [int(i) for i in e.vertex_ids],
        "estimate": estimate_to_spec(e.estimate),
        "information": fxm(np.asarray(e.information, dtype=np.float64).tolist()),
    }
    if isinstance(e, EdgeLandmark):
        s["offset"] = pose_to_spec(e.offset)
        s["offset_id"] = e.offset_id
    dt = getattr(e.information, "dtype", None)
    if dt is not None and dt == np.float32:
        s["info_dtype"] = "float32"
    elif dt is not None and dt.kind in "iu":
        s["info_dtype"] = "int"
    return s


def edge_from_spec(s):
    cls = EDGE_KINDS[s["kind"]]
    info = np.array(xfm(s["information"]), dtype=np.float64)
    if s.get("info_dtype") == "float32":
        info = info.astype(np.float32)  # the spec holds values that are exactly representable in single precision
    elif s.get("info_dtype") == "int":
        info = info.astype(np.int64)
    est = estimate_from_spec(s["estimate"])
    if issubclass(cls, EdgeLandmark):
        return cls(list(s["ids"]), info, est, pose_from_spec(s.get("offset")), s.get("offset_id"))
    return cls(list(s["ids"]), info, est)


def vertex_to_spec(v):
    return {"id": int(v.id), "pose": pose_to_spec(v.pose), "fixed": bool(v.fixed)}


def vertex_from_spec(s):
    return Vertex(s["id"], pose_from_spec(s["pose"]), bool(s.get("fixed", False)))


def param_to_spec(p):
    return {"key": [p.key[0], int(p.key[1])], "v": pose_to_spec(p.value)}


def param_from_spec(s):
    key = (s["key"][0], s["key"][1])
    cls = G2OParameterSE2Offset if key[0] == "PARAMS_SE2OFFSET" else G2OParameterSE3Offset
    return cls(key, pose_from_spec(s["v"]))


def build(workload):
    """A brand-new Graph from a spec (shares no object with anything else)."""
    vertices = [vertex_from_spec(v) for v in workload["vertices"]]
    # two vertices may have been constructed from one and the same pose object (a user passing the same initial guess twice)
    by_id = {v.id: v for v in vertices}
    for spec, v in zip(workload["vertices"], vertices):
        if spec.get("alias_of") is not None and spec["alias_of"] in by_id and by_id[spec["alias_of"]] is not v:
            v.pose = by_id[spec["alias_of"]].pose
    edges = [edge_from_spec(e) for e in workload["edges"]]
    # several edges may have been given one and the same information matrix object (info = np.eye(3) reused in a loop)
    for k, (spec, e) in enumerate(zip(workload["edges"], edges)):
        j = spec.get("information_alias_of")
        if j is not None and 0 <= j < k and np.shape(edges[j].information) == np.shape(e.information):
            e.information = edges[j].information
    # ... or an edge's measurement / offset may be the very object that is some vertex's pose
    for spec, e in zip(workload["edges"], edges):
        if spec.get("estimate_alias_of") is not None and spec["estimate_alias_of"] in by_id:
            e.estimate = by_id[spec["estimate_alias_of"]].pose
        if spec.get("offset_alias_of") is not None and spec["offset_alias_of"] in by_id:
            e.offset = by_id[spec["offset_alias_of"]].pose
    g = Graph(edges, vertices)
    params = workload.get("params")
    if params is not None:
        g._g2o_params = {}
        for p in params:
            obj = param_from_spec(p)
            g._g2o_params[obj.key] = obj
    return g


def spec_of_graph(g):
    w = {
        "vertices": [vertex_to_spec(v) for v in g._vertices],
        "edges": [edge_to_spec(e) for e in g._edges],
    }
    params = getattr(g, "_g2o_params", None)
    if params is not None:
        w["params"] = [param_to_spec(p) for p in params.values()]
    return w


def clone(g):
    return build(spec_of_graph(g))


# --------------------------------------------------------------------------- #
# numeric helpers
# --------------------------------------------------------------------------- #
def canon_angle(a):
    """+pi and -pi are the same rotation (observation O2)."""
    if a == math.pi:
        return -math.pi
    return a


def ang_diff(a, b):
    """|a - b| modulo 2*pi, for finite a, b."""
    d = math.fmod(a - b, 2.0 * math.pi)
    if d > math.pi:
        d -= 2.0 * math.pi
    elif d < -math.pi:
        d += 2.0 * math.pi
    return abs(d)


def pose_arrays_close(t, a, b, rel, abs_floor=0.0):
    """Component-wise closeness of two stored poses of type t; SE(2) angle modulo 2*pi.

    Returns (ok, worst) where NaN/inf anywhere is never close (unless bitwise equal).
    """
    a = np.asarray(a, dtype=np.float64)
    b = np.asarray(b, dtype=np.float64)
    if a.shape != b.shape:
        return False, float("inf")
    if a.tobytes() == b.tobytes():
        return True, 0.0
    if not (np.all(np.isfinite(a)) and np.all(np.isfinite(b))):
        return False, float("inf")
    worst = 0.0
    ok = True
    for i in range(len(a)):
        if t == "SE2" and i == 2:
            d = ang_diff(float(a[i]), float(b[i]))
            lim = rel * max(1.0, abs(float(a[i]))) + abs_floor
        else:
            d = abs(float(a[i]) - float(b[i]))
            lim = rel * max(1.0, abs(float(a[i])), abs(float(b[i]))) + abs_floor
        if d > lim:
            ok = False
        worst = max(worst, d / lim if lim > 0 else (0.0 if d == 0 else float("inf")))
    return ok, worst


# --------------------------------------------------------------------------- #
# generators
# --------------------------------------------------------------------------- #
def rand_unit_quat(rng):
    while True:
        q = [rng.gauss(0, 1) for _ in range(4)]
        n = math.sqrt(sum(x * x for x in q))
        if n > 1e-3:
            return [x / n for x in q]


def small_quat(rng, angle):
    """Unit quaternion [x,y,z,w] for a rotation by ``angle`` about a random axis."""
    ax = [rng.gauss(0, 1) for _ in range(3)]
    n = math.sqrt(sum(x * x for x in ax)) or 1.0
    s = math.sin(angle / 2.0)
    return [ax[0] / n * s, ax[1] / n * s, ax[2] / n * s, math.cos(angle / 2.0)]


def rand_pose(rng, t, scale=1.0, rot=math.pi):
    if t == "R2":
        return PoseR2([rng.uniform(-1, 1) * scale, rng.uniform(-1, 1) * scale])
    if t == "R3":
        return PoseR3([rng.uniform(-1, 1) * scale for _ in range(3)])
    if t == "SE2":
        return PoseSE2([rng.uniform(-1, 1) * scale, rng.uniform(-1, 1) * scale], rng.uniform(-rot, rot))
    if t == "SE3":
        p = PoseSE3([rng.uniform(-1, 1) * scale for _ in range(3)], small_quat(rng, rng.uniform(-rot, rot)))
        p.normalize()
        return p
    raise ValueError(t)


def rand_delta(rng, t, trans, rot):
    """A compact increment for boxplus."""
    if t == "R2":
        return np.array([rng.gauss(0, trans) for _ in range(2)])
    if t == "R3":
        return np.array([rng.gauss(0, trans) for _ in range(3)])
    if t == "SE2":
        return np.array([rng.gauss(0, trans), rng.gauss(0, trans), rng.gauss(0, rot)])
    v = [rng.gauss(0, rot / 2.0) for _ in range(3)]
    n = math.sqrt(sum(x * x for x in v))
    if n > 0.9:
        v = [x * 0.9 / n for x in v]
    return np.array([rng.gauss(0, trans) for _ in range(3)] + v)


def boxplus(pose, delta):
    """pose [+] delta through the real operator (R^n poses take the array directly)."""
    return pose + np.asarray(delta, dtype=np.float64)


def rand_information(rng, n, kind=None, max_cond=1e4):
    kind = kind or rng.choice(["identity", "diag", "spd", "spd"])
    if kind == "identity":
        return np.eye(n)
    if kind == "scaled":
        return np.eye(n) * 10.0 ** rng.uniform(-2, 3)
    if kind == "diag":
        return np.diag([10.0 ** rng.uniform(-1, 2) for _ in range(n)])
    # SPD with cross terms: Q diag Q^T, made exactly symmetric
    a = np.array([[rng.gauss(0, 1) for _ in range(n)] for _ in range(n)])
    q, _ = np.linalg.qr(a)
    lo = 10.0 ** rng.uniform(-1, 1)
    hi = lo * 10.0 ** rng.uniform(0, math.log10(max_cond))
    d = [lo] + [10.0 ** rng.uniform(math.log10(lo), math.log10(hi)) for _ in range(n - 2)] + ([hi] if n > 1 else [])
    m = q @ np.diag(d[:n]) @ q.T
    return (m + m.T) / 2.0


ID_SCHEMES = ["range", "range", "offset", "negative", "sparse", "huge", "huge62"]


def make_ids(rng, n, scheme=None):
    scheme = scheme or rng.choice(ID_SCHEMES)
    if scheme == "range":
        ids = list(range(n))
    elif scheme == "offset":
        base = rng.randrange(1, 1000)
        ids = list(range(base, base + n))
    elif scheme == "negative":
        ids = rng.sample(range(-50 - n, 50 + n), n)
    elif scheme == "sparse":
        ids = rng.sample(range(0, 100000), n)
    elif scheme == "huge":
        ids = rng.sample(range(2**40, 2**40 + 10**6), n)
    else:
        ids = rng.sample(range(2**62, 2**62 + 10**6), n)  # not representable as doubles
    return ids, scheme


def gen_opt_workload(rng, opts=None):
    """A pose graph for the optimizer engines (C06, C12, C15).

    Returns (workload spec, meta) where meta records the classes drawn (for
    signatures and probes).  All numbers pass through the real constructors so
    stored SE(2) angles are fixed points of the wrap (bit-exact clones).
    """
    o = {
        "families": ["R2", "R3", "SE2", "SE3", "SE2+R2", "SE3+R3", "mixed"],
        "max_vertices": 12,
        "allow_custom": True,
        "allow_numeric": True,
        "allow_isolated": True,
        "allow_two_components": True,
        "init_noise": ["tiny", "moderate", "moderate", "far"],
        "self_loops": False,
        "alias_poses": 0.0,
        "asym_information": 0.0,
        "nonunit_quats": 0.0,
        "satellite_pose": 0.0,
        "rank_deficient_information": 0.0,
        "huge_scale": 0.0,
    }
    o.update(opts or {})
    family = rng.choice(o["families"])
    meta = {"family": family}
    scale = 10.0 ** rng.choice([-3, -1, 0, 0, 0, 1, 3]) if rng.random() < 0.4 else 1.0
    if o["huge_scale"] and rng.random() < o["huge_scale"]:
        scale = 10.0 ** rng.choice([150, 180, 200])  # squared errors overflow: chi^2 is inf from the start
        meta["huge_scale"] = True
    meta["scale"] = scale
    noise_class = rng.choice(o["init_noise"])
    meta["init_noise"] = noise_class
    meas_noise = rng.choice([0.0, 1e-3, 1e-2, 0.05])
    if noise_class == "tiny":
        tn, rn = 1e-6, 1e-6
    elif noise_class == "moderate":
        tn, rn = 0.1, 0.1
    else:
        tn, rn = 3.0, 1.5

    # components: list of (pose type, n poses, n landmarks)
    total = rng.randint(2, o["max_vertices"])
    r_size = rng.random()
    if r_size < 0.03:
        total = rng.randint(20, 70)  # sizes beyond any small-problem threshold (dense fallbacks, chunking, caches)
        meta["big_graph"] = True
    elif r_size < 0.08:
        total = 1  # a single vertex
        meta["single_vertex"] = True
    if family == "mixed" and total >= 4:
        a = max(2, total // 2)
        comps = [("SE2", a), ("SE3", max(2, total - a))]
    elif family == "mixed":
        comps = [(rng.choice(["SE2", "SE3"]), total)]
    elif "+" in family:
        comps = [(family.split("+")[0], total)]
    else:
        comps = [(family, total)]
    topology = rng.choice(["chain", "loops", "loops", "star", "multi"])
    if o["allow_two_components"] and len(comps) == 1 and total >= 4 and rng.random() < 0.2:
        topology = "two_components"
    meta["topology"] = topology if family != "mixed" else "mixed:" + topology

    verts = []  # (type, truth pose, role)
    edges = []  # spec-level tuples built below
    vindex = 0
    for t, cnt in comps:
        with_landmarks = "+" in family or family == "mixed" or rng.random() < 0.25
        comp_start = len(edges)
        n_land = rng.randint(1, max(1, cnt // 3)) if (with_landmarks and cnt >= 3) else 0
        n_pose = cnt - n_land
        if n_pose < 1:
            n_pose, n_land = cnt, 0
        # truth: random walk
        truth = [rand_pose(rng, t, scale, math.pi)]
        for _ in range(n_pose - 1):
            step = rand_pose(rng, t, scale, 0.8)
            truth.append(truth[-1] + step)
        base = vindex
        for p in truth:
            verts.append([t, p, "pose"])
        vindex += n_pose
        pt = POINT_OF[t]
        lands = []
        for _ in range(n_land):
            lp = rand_pose(rng, pt, scale * 2)
            lands.append(vindex)
            verts.append([pt, lp, "landmark"])
            vindex += 1

        def odo(i, j, numeric=False):
            est = verts[j][1] - verts[i][1]
            if meas_noise:
                est = boxplus(est, rand_delta(rng, t, meas_noise * scale, meas_noise))
            n = est.COMPACT_DIMENSIONALITY
            kind = "numeric_odometry" if numeric else "odometry"
            edges.append({"kind": kind, "ij": [i, j], "estimate": est, "information": rand_information(rng, n)})

        def num():
            return o["allow_numeric"] and rng.random() < 0.15

        idxs = list(range(base, base + n_pose))
        split = None
        if topology == "two_components" and n_pose >= 4:
            split = n_pose // 2
        if topology == "star":
            for j in idxs[1:]:
                odo(idxs[0], j, num())
        else:
            for k in range(n_pose - 1):
                if split is not None and k + 1 == split:
                    continue
                odo(idxs[k], idxs[k + 1], num())
        if topology in ("loops", "multi", "two_components") and n_pose >= 3:
            for _ in range(rng.randint(1, 3)):
                if split is not None:
                    half = idxs[:split] if rng.random() < 0.5 else idxs[split:]
                    if len(half) < 2:
                        continue
                    i, j = rng.sample(half, 2)
                else:
                    i, j = rng.sample(idxs, 2)
                odo(i, j, num())
        if topology == "multi" and [e for e in edges[comp_start:] if e["kind"].endswith("odometry")]:
            for _ in range(rng.randint(1, 2)):
                e = rng.choice([e for e in edges[comp_start:] if e["kind"].endswith("odometry")])
                odo(e["ij"][0], e["ij"][1], False)
        # landmark edges
        for li in lands:
            obs = rng.sample(idxs, min(len(idxs), rng.randint(1, 3)))
            for i in obs:
                if t in ("SE2", "SE3") and rng.random() < 0.6:
                    off = rand_pose(rng, t, scale * 0.5, math.pi)
                else:
                    off = POSE_TYPES[t].identity()
                est = (verts[i][1] + off).inverse + verts[li][1]
                if meas_noise:
                    est = boxplus(est, rand_delta(rng, pt, meas_noise * scale, 0.0))
                n = est.COMPACT_DIMENSIONALITY
                kind = "numeric_landmark" if num() else "landmark"
                edges.append(
                    {
                        "kind": kind,
                        "ij": [i, li],
                        "estimate": est,
                        "information": rand_information(rng, n),
                        "offset": off,
                        "offset_id": rng.choice([None, 0, 1, 7]),
                    }
                )
        # a "satellite": a pose that is touched by a single landmark edge only (its own Hessian block is rank deficient)
        if o["satellite_pose"] and lands and t in ("SE2", "SE3") and rng.random() < o["satellite_pose"]:
            sat = rand_pose(rng, t, scale, math.pi)
            verts.append([t, sat, "satellite"])
            si = vindex
            vindex += 1
            li = rng.choice(lands)
            off = POSE_TYPES[t].identity() if rng.random() < 0.5 else rand_pose(rng, t, scale * 0.5, math.pi)
            est = (sat + off).inverse + verts[li][1]
            edges.append({"kind": "landmark", "ij": [si, li], "estimate": est, "information": rand_information(rng, est.COMPACT_DIMENSIONALITY),
                          "offset": off, "offset_id": 0})
            meta["satellite"] = True
        # custom edges
        if o["allow_custom"] and rng.random() < 0.35:
            for _ in range(rng.randint(1, 2)):
                ck = rng.choice(["prior", "numeric_prior", "likelihood_prior", "distance", "midpoint"])
                if ck in ("prior", "numeric_prior", "likelihood_prior"):
                    i = rng.choice(idxs)
                    est = boxplus(verts[i][1], rand_delta(rng, t, meas_noise * scale, meas_noise))
                    n = est.COMPACT_DIMENSIONALITY
                    edges.append({"kind": ck, "ij": [i], "estimate": est, "information": rand_information(rng, n)})
                elif ck == "distance" and n_pose >= 2:
                    i, j = rng.sample(idxs, 2)
                    d = float(np.linalg.norm((verts[i][1] - verts[j][1]).position))
                    if d > 1e-3 * scale:
                        edges.append(
                            {
                                "kind": "distance",
                                "ij": [i, j],
                                "estimate": d * (1.0 + rng.uniform(-0.05, 0.05)),
                                "information": np.array([[10.0 ** rng.uniform(-1, 2)]]),
                            }
                        )
                elif ck == "midpoint" and n_pose >= 3:
                    i, j, k = rng.sample(idxs, 3)
                    pd = len(verts[i][1].position)
                    est = 0.5 * (verts[i][1].position + verts[k][1].position) - verts[j][1].position
                    edges.append(
                        {"kind": "midpoint", "ij": [i, j, k], "estimate": est, "information": rand_information(rng, pd)}
                    )
        if o["self_loops"] and rng.random() < 0.25 and n_pose >= 1:
            i = rng.choice(idxs)
            est = rand_pose(rng, t, scale * 0.1, 0.1)
            edges.append(
                {"kind": "numeric_odometry" if rng.random() < 0.5 else "odometry", "ij": [i, i], "estimate": est,
                 "information": rand_information(rng, est.COMPACT_DIMENSIONALITY)}
            )
            meta["self_loop"] = True
    # isolated vertices
    n_iso = 0
    if o["allow_isolated"] and rng.random() < 0.2:
        n_iso = rng.randint(1, 2)
        for _ in range(n_iso):
            t = rng.choice([c[0] for c in comps])
            verts.append([t, rand_pose(rng, t, scale), "isolated"])
    meta["isolated"] = n_iso

    nv = len(verts)
    ids, scheme = make_ids(rng, nv)
    meta["ids"] = scheme
    order = list(range(nv))
    if rng.random() < 0.5:
        rng.shuffle(order)
        meta["shuffled"] = True
    vspecs = []
    for k in order:
        t, truth, role = verts[k]
        init = boxplus(truth, rand_delta(rng, t, tn * scale, rn)) if role != "isolated" else truth
        if t == "SE3" and o["nonunit_quats"] and rng.random() < o["nonunit_quats"]:
            # a vertex as it comes out of a file written with few decimals: the quaternion is only roughly unit
            arr = np.array(init, dtype=np.float64)
            arr[3:] = np.round(arr[3:], 3) if rng.random() < 0.5 else arr[3:] * rng.choice([1.001, 0.998, 1.0 + 1e-4])
            if float(np.linalg.norm(arr[3:])) > 0.5:
                init = make_pose("SE3", arr.tolist())
                meta["nonunit_vertex_quaternion"] = True
        vspecs.append({"id": ids[k], "pose": pose_to_spec(init), "fixed": False, "role": role})
    if o["alias_poses"] and rng.random() < o["alias_poses"] and nv >= 2:
        # a pair of same-type vertices shares one pose object (same numbers, same object)
        a = rng.randrange(nv)
        same = [k for k in range(nv) if k != a and vspecs[k]["pose"]["t"] == vspecs[a]["pose"]["t"]]
        if same:
            b = rng.choice(same)
            vspecs[b]["pose"] = dict(vspecs[a]["pose"])
            vspecs[b]["alias_of"] = vspecs[a]["id"]
            meta["aliased_pose"] = True
    if o["alias_poses"] and rng.random() < o["alias_poses"]:
        # an odometry measurement (or a landmark offset) that is the same object as a vertex pose of that type
        cands = []
        for e in edges:
            if e["kind"] in ("odometry", "numeric_odometry"):
                t = type_name(e["estimate"])
                cands += [(e, "estimate", k) for k in range(nv) if vspecs[k]["pose"]["t"] == t and "alias_of" not in vspecs[k]]
            elif e["kind"] in ("landmark", "numeric_landmark") and e.get("offset") is not None:
                t = type_name(e["offset"])
                cands += [(e, "offset", k) for k in range(nv) if vspecs[k]["pose"]["t"] == t and "alias_of" not in vspecs[k]]
        if cands:
            e, what, k = rng.choice(cands)
            e[what] = pose_from_spec(vspecs[k]["pose"])
            e[what + "_alias_of"] = vspecs[k]["id"]
            meta["aliased_" + what] = True
    if o["rank_deficient_information"]:
        for e in edges:
            info = np.array(e["information"], dtype=np.float64)
            if info.shape[0] >= 2 and rng.random() < o["rank_deficient_information"]:
                # a measurement that says nothing about one direction: positive semi-definite, singular
                k = rng.randrange(info.shape[0])
                d = np.ones(info.shape[0])
                d[k] = 0.0
                if rng.random() < 0.4:
                    d[:] = 0.0  # a measurement the user switched off altogether
                e["information"] = np.diag(d) * float(10.0 ** rng.uniform(-1, 2))
                meta["rank_deficient_information"] = True
    if o["asym_information"]:
        for e in edges:
            info = np.array(e["information"], dtype=np.float64)
            if info.shape[0] >= 2 and rng.random() < o["asym_information"]:
                # what np.linalg.inv(cov) gives: symmetric only up to rounding
                i, j = rng.sample(range(info.shape[0]), 2)
                info[i, j] = math.nextafter(info[i, j], math.inf) if info[i, j] != 0 else 1e-17
                e["information"] = info
                meta["asym_information"] = True
    if rng.random() < 0.03:
        edges = []  # a graph without any edge is still a graph
        meta["no_edges"] = True
    if rng.random() < 0.3:
        rng.shuffle(edges)
    if o["alias_poses"] and rng.random() < 2 * o["alias_poses"] and len(edges) >= 2:
        # the user built all edges of one kind with a single information matrix object
        first = {}
        for k, e in enumerate(edges):
            n = np.shape(e["information"])[0]
            if n in first and rng.random() < 0.7:
                e["information"] = edges[first[n]]["information"]
                e["information_alias_of"] = first[n]
                meta["shared_information_object"] = True
            else:
                first.setdefault(n, k)
    especs = []
    for e in edges:
        s = {
            "kind": e["kind"],
            "ids": [ids[k] for k in e["ij"]],
            "estimate": estimate_to_spec(e["estimate"]),
            "information": fxm(np.asarray(e["information"]).tolist()),
        }
        if "offset" in e:
            s["offset"] = pose_to_spec(e["offset"])
            s["offset_id"] = e["offset_id"]
        for key in ("estimate_alias_of", "offset_alias_of", "information_alias_of"):
            if key in e:
                s[key] = e[key]
        especs.append(s)
    meta["n_vertices"] = nv
    meta["n_edges"] = len(especs)
    return {"vertices": vspecs, "edges": especs}, meta


def components(workload):
    """Connected components over vertex ids (edges of any arity)."""
    parent = {v["id"]: v["id"] for v in workload["vertices"]}

    def find(x):
        while parent[x] != x:
            parent[x] = parent[parent[x]]
            x = parent[x]
        return x

    for e in workload["edges"]:
        ids = e["ids"]
        for other in ids[1:]:
            ra, rb = find(ids[0]), find(other)
            if ra != rb:
                parent[ra] = rb
    comps = {}
    for v in workload["vertices"]:
        comps.setdefault(find(v["id"]), []).append(v["id"])
    return list(comps.values())
