"""gsim -- deterministic simulation with fault injection for python-graphslam.

See /verif/DESIGN.md.  The code under test is always imported from /repo's
working tree (``/verif/check`` puts it first on ``sys.path``).
"""
