"""C13 -- .g2o export followed by import is lossless.

Engine ``simio``: export/import cycle histories through the real CPython io
stack over a simulated raw device with device-level faults; structural
field-by-field model; acknowledged export => lossless (DESIGN.md section 4, C13).
"""

import copy
import math
import numbers
import pathlib

import numpy as np

from graphslam.graph import Graph

from . import graphs, simio
from .core import EventLog, Result, fxm, xf
from .simopt import OptEngineBase, draw_config, finish_result, pick_event, pos_bucket
from .world import World

WRITE_FAULTS = ["enospc", "enospc", "eio_write", "short_write", "short_write", "slow"]
READ_FAULTS = ["eio_read", "eio_read", "short_read", "short_read", "slow"]
CLOSE_FAULTS = ["eio_close"]
HARD = {"enospc", "eio_write", "eio_close", "eio_read"}


def gen_io_workload(rng, inexpressible=None):
    """A graph from the class .g2o can express (or, if asked, with one inexpressible element)."""
    meta = {}
    dim = rng.choice(["2d", "3d", "both"] * 8 + ["empty"])  # rarely: a graph with nothing in it
    meta["dim"] = dim
    mag = rng.choice(["moderate", "moderate", "wide", "wide", "huge", "tiny"])
    meta["magnitude"] = mag

    def val():
        if mag == "moderate":
            return simio.wide_float(rng, rng.choice(["unit", "moderate", "int", "ugly", "zero"]))
        if mag == "huge":
            return simio.wide_float(rng, rng.choice(["huge", "huge", "moderate"]))
        if mag == "tiny":
            return simio.wide_float(rng, rng.choice(["tiny", "tiny", "unit", "zero"]))
        return simio.wide_float(rng)

    verts = []  # (type, pose)
    big = 12 if rng.random() < 0.03 else 1  # occasionally an order of magnitude more elements
    if big > 1:
        meta["big_graph"] = True
    n_pose2 = rng.randint(1, 8) * big if dim in ("2d", "both") else 0
    n_land2 = rng.randint(0, 4) if n_pose2 else 0
    n_pose3 = rng.randint(1, 8) * big if dim in ("3d", "both") else 0
    n_land3 = rng.randint(0, 4) if n_pose3 else 0
    for _ in range(n_pose2):
        ang = rng.choice([rng.uniform(-math.pi, math.pi), rng.uniform(-1e6, 1e6), 0.0, math.pi, -math.pi, math.nextafter(math.pi, 0), math.nextafter(-math.pi, -10)])
        verts.append(graphs.make_pose("SE2", [val(), val(), ang]))
    for _ in range(n_land2):
        verts.append(graphs.make_pose("R2", [val(), val()]))
    for _ in range(n_pose3):
        verts.append(graphs.make_pose("SE3", [val(), val(), val()] + simio.unit_quat(rng)))
    for _ in range(n_land3):
        verts.append(graphs.make_pose("R3", [val(), val(), val()]))
    nv = len(verts)
    ids, scheme = graphs.make_ids(rng, nv)
    meta["ids"] = scheme
    order = list(range(nv))
    if rng.random() < 0.5:
        rng.shuffle(order)
    types = [graphs.type_name(p) for p in verts]
    idx = {t: [k for k in range(nv) if types[k] == t] for t in ("SE2", "R2", "SE3", "R3")}
    edges = []
    params = []
    # parameter table
    n_par3 = rng.randint(1, 3) if idx["R3"] else rng.choice([0, 0, 1])
    par3 = {}
    for _ in range(n_par3):
        pid = rng.choice([0, 1, 2, 5, 17, 1000, -1, -7, 2**33, 2**62])
        if pid in par3:
            continue
        off = graphs.make_pose("SE3", [val(), val(), val()] + simio.unit_quat(rng))
        par3[pid] = off
        params.append({"key": ["PARAMS_SE3OFFSET", pid], "v": graphs.pose_to_spec(off)})
    if rng.random() < 0.3:
        off2 = graphs.make_pose("SE2", [val(), val(), rng.uniform(-3, 3)])
        params.append({"key": ["PARAMS_SE2OFFSET", rng.choice([0, 3])], "v": graphs.pose_to_spec(off2)})
    if rng.random() < 0.5:
        rng.shuffle(params)
    cross = rng.random() < 0.7
    # odometry
    for t in ("SE2", "SE3"):
        ps = idx[t]
        if len(ps) >= 2:
            for _ in range(rng.randint(1, min(12 * big, 2 * len(ps)))):
                i, j = rng.sample(ps, 2)
                if t == "SE2":
                    est = graphs.make_pose("SE2", [val(), val(), rng.uniform(-4, 4)])
                else:
                    est = graphs.make_pose("SE3", [val(), val(), val()] + simio.unit_quat(rng))
                n = est.COMPACT_DIMENSIONALITY
                edges.append({"kind": "odometry", "ids": [ids[i], ids[j]], "estimate": graphs.pose_to_spec(est),
                              "information": fxm(simio.spd_information(rng, n, cross).tolist())})
    # landmark edges
    for li in idx["R2"]:
        for _ in range(rng.randint(0, 2)):
            i = rng.choice(idx["SE2"])
            est = graphs.make_pose("R2", [val(), val()])
            edges.append({"kind": "landmark", "ids": [ids[i], ids[li]], "estimate": graphs.pose_to_spec(est),
                          "information": fxm(simio.spd_information(rng, 2, cross).tolist()),
                          "offset": graphs.pose_to_spec(graphs.make_pose("SE2", [0.0, 0.0, 0.0])), "offset_id": rng.choice([0, 0, None, 4])})
    for li in idx["R3"]:
        for _ in range(rng.randint(0, 2)):
            if not par3:
                break
            i = rng.choice(idx["SE3"])
            pid = rng.choice(sorted(par3))
            est = graphs.make_pose("R3", [val(), val(), val()])
            edges.append({"kind": "landmark", "ids": [ids[i], ids[li]], "estimate": graphs.pose_to_spec(est),
                          "information": fxm(simio.spd_information(rng, 3, cross).tolist()),
                          "offset": graphs.pose_to_spec(par3[pid]), "offset_id": pid})
    for e in edges:
        if rng.random() < 0.15:
            # information of any magnitude: the whole matrix scaled far down or up (entries 1e-300 .. 1e300)
            sc = 10.0 ** rng.choice([-290, -200, -100, -20, -12, -10, -9, 9, 20, 100, 200])
            m = np.array([[float.fromhex(v) for v in row] for row in e["information"]]) * sc
            if np.all(np.isfinite(m)) and np.any(m != 0):
                e["information"] = fxm(m.tolist())
                meta["scaled_information"] = True
    for e in edges:
        r = rng.random()
        if r < 0.08:
            # an information matrix held in single precision (e.g. loaded from a float32 sensor log)
            with np.errstate(all="ignore"):
                m = np.array([[float(np.float32(float.fromhex(v))) for v in row] for row in e["information"]])
            if np.all(np.isfinite(m)):
                e["information"] = fxm(m.tolist())
                e["info_dtype"] = "float32"
                meta["float32_information"] = True
        elif r < 0.12:
            n = len(e["information"])
            e["information"] = fxm((np.eye(n) * rng.randint(1, 9)).tolist())
            e["info_dtype"] = "int"
    if edges and rng.random() < 0.2:
        # exact duplicates: two identical measurements are two edges (element order and count are part of the graph)
        for _ in range(rng.randint(1, 2)):
            edges.insert(rng.randrange(len(edges) + 1), copy.deepcopy(rng.choice(edges)))
        meta["duplicate_edges"] = True
    if rng.random() < 0.4:
        rng.shuffle(edges)
    vspecs = [{"id": ids[k], "pose": graphs.pose_to_spec(verts[k]), "fixed": rng.random() < 0.2} for k in order]
    workload = {"vertices": vspecs, "edges": edges, "params": params if (params or rng.random() < 0.5) else None}
    if workload["params"] is None:
        del workload["params"]
    meta["cross_terms"] = cross
    # one inexpressible element, if asked
    if inexpressible:
        kind = inexpressible
        meta["inexpressible"] = kind
        if kind == "odometry_r2" or kind == "odometry_r3":
            t = "R2" if kind.endswith("2") else "R3"
            a = graphs.make_pose(t, [val() for _ in range(2 if t == "R2" else 3)])
            b = graphs.make_pose(t, [val() for _ in range(2 if t == "R2" else 3)])
            ia, ib = _fresh_ids(rng, ids, 2)
            vspecs += [{"id": ia, "pose": graphs.pose_to_spec(a), "fixed": False}, {"id": ib, "pose": graphs.pose_to_spec(b), "fixed": False}]
            n = a.COMPACT_DIMENSIONALITY
            edges.append({"kind": "odometry", "ids": [ia, ib], "estimate": graphs.pose_to_spec(graphs.make_pose(t, [1.0] * n)),
                          "information": fxm(np.eye(n).tolist())})
        elif kind == "landmark_rn":
            a = graphs.make_pose("R2", [val(), val()])
            b = graphs.make_pose("R2", [val(), val()])
            ia, ib = _fresh_ids(rng, ids, 2)
            vspecs += [{"id": ia, "pose": graphs.pose_to_spec(a), "fixed": False}, {"id": ib, "pose": graphs.pose_to_spec(b), "fixed": False}]
            edges.append({"kind": "landmark", "ids": [ia, ib], "estimate": graphs.pose_to_spec(graphs.make_pose("R2", [0.5, 0.5])),
                          "information": fxm(np.eye(2).tolist()), "offset": graphs.pose_to_spec(graphs.make_pose("R2", [0.0, 0.0])), "offset_id": 0})
        elif kind == "landmark2d_offset":
            a = graphs.make_pose("SE2", [val(), val(), 0.3])
            b = graphs.make_pose("R2", [val(), val()])
            ia, ib = _fresh_ids(rng, ids, 2)
            vspecs += [{"id": ia, "pose": graphs.pose_to_spec(a), "fixed": False}, {"id": ib, "pose": graphs.pose_to_spec(b), "fixed": False}]
            off = rng.choice([[0.5, 0.1, 0.7], [0.0, 0.0, 1e-3], [1e-9, 0.0, 0.0], [0.0, 2.0, 0.0], [1e-13, 0.0, 0.0], [0.0, 0.0, 1e-15], [0.0, -1e-300, 0.0]])
            edges.append({"kind": "landmark", "ids": [ia, ib], "estimate": graphs.pose_to_spec(graphs.make_pose("R2", [0.5, 0.5])),
                          "information": fxm(simio.spd_information(rng, 2, True).tolist()),
                          "offset": graphs.pose_to_spec(graphs.make_pose("SE2", off)), "offset_id": rng.choice([0, None, 2])})
        elif kind in ("landmark3d_no_param", "landmark3d_none_id", "landmark3d_param_mismatch"):
            a = graphs.make_pose("SE3", [val(), val(), val()] + simio.unit_quat(rng))
            b = graphs.make_pose("R3", [val(), val(), val()])
            ia, ib = _fresh_ids(rng, ids, 2)
            vspecs += [{"id": ia, "pose": graphs.pose_to_spec(a), "fixed": False}, {"id": ib, "pose": graphs.pose_to_spec(b), "fixed": False}]
            off = graphs.make_pose("SE3", [0.1, 0.2, 0.3] + simio.unit_quat(rng))
            if kind == "landmark3d_none_id":
                oid = None
            elif kind == "landmark3d_no_param":
                oid = 9999
            else:
                if not par3:
                    par3[0] = graphs.make_pose("SE3", [1.0, 2.0, 3.0] + simio.unit_quat(rng))
                    workload.setdefault("params", []).append({"key": ["PARAMS_SE3OFFSET", 0], "v": graphs.pose_to_spec(par3[0])})
                oid = sorted(par3)[0]
            edges.append({"kind": "landmark", "ids": [ia, ib], "estimate": graphs.pose_to_spec(graphs.make_pose("R3", [0.5, 0.5, 0.5])),
                          "information": fxm(np.eye(3).tolist()), "offset": graphs.pose_to_spec(off), "offset_id": oid})
    meta["n_vertices"] = len(vspecs)
    meta["n_edges"] = len(edges)
    return workload, meta


def _fresh_ids(rng, ids, n):
    out = []
    base = max(ids) + 1 if ids else 0
    for k in range(n):
        out.append(base + k)
    return out


INEXPRESSIBLE = ["odometry_r2", "odometry_r3", "landmark_rn", "landmark2d_offset", "landmark3d_no_param", "landmark3d_none_id",
                 "landmark3d_param_mismatch"]


class C13(OptEngineBase):
    PROPERTY = "C13"
    SWEEP_MENU = {"disk": WRITE_FAULTS}
    ENGINE_NAME = "simio"
    TIERS = {
        "quick": {"runs": 4500, "budget_s": 75, "chunk": 32},
        "thorough": {"runs": 120000, "budget_s": 900, "chunk": 64},
    }
    RULE = (
        "Each run = one seeded case: platform personality (newline, default encoding, buffer size 1..8192, raw transfer limit "
        "1..4096 bytes), a graph from the class .g2o can express (SE(2)/SE(3) vertices, R^2/R^3 landmarks, SE(2)/SE(3) odometry, "
        "2-D landmark edges with identity offset, 3-D landmark edges with their offset in the parameter table; values 1e-300..1e300, "
        "negative/huge ids, w<0 quaternions, SPD information with cross terms) or with one inexpressible element, and a history of "
        "export / import / export_again / export_other / optimize ops (1..5 cycles); 0..3 device faults (short write/read, ENOSPC, EIO "
        "on write/read, error at close, slow) at (op, device event) from a dry run. Oracle: structural field-by-field comparison of the "
        "imported graph with a snapshot of the exported one (bitwise floats except SE(2) angles modulo 2*pi and SE(3) measurement "
        "quaternions as rotations), chi^2 equality, acknowledged export => complete file, hard fault => raise and graph untouched, "
        "inexpressible content => refused. Non-trivial = >=1 acknowledged export followed by an import that was compared, with >=1 "
        "edge; distinct = distinct signature (dim, magnitude, ids, platform newline/bufsize bucket, op kinds with outcomes, faults)."
    )
    ASSUMPTIONS = [
        "Vertex.fixed and the offset_id of 2-D landmark edges are not compared (the format has no field for them)",
        "what from_g2o does with a torn file left by a failed export is not claimed",
        "custom edge types are out of C13's scope (C14 covers their import)",
        "measurement quaternions are generated with unit norm to rounding; non-unit user input is outside the statement",
    ]
    PROBES = [
        "w_negative_vertex", "w_negative_measurement", "cross_terms", "huge_magnitude", "tiny_magnitude", "neg_id", "big_id",
        "crlf_platform", "enospc_fired", "error_at_close_fired", "short_write_fired", "short_read_split_crlf", "inexpressible_refused",
        "cycle_ge_3", "mutated_between_exports", "float32_information", "legacy_print_mode", "import_check_of_earlier_file", "scaled_information", "export_raised", "import_raised", "export_again_checked", "angle_pi_stored", "params_table", "chi2_nonfinite",
    ]

    def generate(self, rng, tier, index):
        config = draw_config(rng)
        inexp = rng.choice(INEXPRESSIBLE) if rng.random() < 0.15 else None
        workload, meta = gen_io_workload(rng, inexp)
        ops = []
        if inexp:
            ops.append({"op": "export", "path": "/simfs/a.g2o"})
            if rng.random() < 0.5:
                ops.append({"op": "export", "path": "/simfs/a.g2o"})
        else:
            cycles = rng.choice([1, 1, 2, 2, 3, 4, 5])
            paths = ["/simfs/a.g2o", "/simfs/b.g2o", "/simfs/dir/c.g2o"]
            if rng.random() < 0.2:
                paths = ["/simfs/map", "/simfs/out.txt", "/simfs/dir/graph.G2O"]  # the path is the caller's business
            cur = rng.choice(paths)
            for c in range(cycles):
                if c > 0 and meta["magnitude"] == "moderate" and rng.random() < 0.25:
                    ops.append({"op": "optimize", "max_iter": rng.randint(1, 3)})
                if rng.random() < 0.3:
                    # the same object is exported, changed by its owner, and exported again
                    ops.append({"op": "export", "path": rng.choice(paths)})
                    first_path = ops[-1]["path"]
                    for _ in range(rng.randint(1, 2)):
                        ops.append({"op": "mutate", "what": rng.choice(["information", "estimate", "vertex", "vertex_inplace", "param", "raw_heading", "offset_inplace", "recreate"]), "k": rng.randrange(1000),
                                    "scale": rng.choice([2.0, 0.5, 3.0, 1.0 + 2.0 ** -40])})
                    if rng.random() < 0.6:
                        # the file written before the change must still load to what it was written from
                        ops.append({"op": "import_check", "path": first_path})
                ops.append({"op": "export", "path": cur})
                if rng.random() < 0.1:
                    ops[-1]["pathlib"] = True
                r = rng.random()
                if r < 0.25:
                    ops.append({"op": "export_again", "path": cur})
                elif r < 0.4:
                    other = rng.choice([p for p in paths if p != cur])
                    ops.append({"op": "export", "path": other})
                    if rng.random() < 0.5:
                        cur = other
                ops.append({"op": "import", "path": cur, "entry": rng.choice(["Graph.from_g2o", "Graph.from_g2o", "load_g2o"])})
        case = {"config": config, "workload": workload, "meta": meta, "ops": ops, "faults": []}
        if rng.random() < 0.6:
            dry = self.execute(copy.deepcopy(case), dry=True)
            case["faults"] = self.plan_disk_faults(rng, dry.counts.get("__actions__", []), rng.choice([1, 1, 2, 3]))
        return case

    def plan_disk_faults(self, rng, actions, k):
        """actions: list of (op_index, event index, action) recorded by the dry run."""
        acts = [a for a in actions if a[0] >= 0 and not a[2].startswith("open")]
        if not acts:
            return []
        by_op = {}
        for a in acts:
            by_op.setdefault(a[0], []).append(a)
        faults = []
        used = set()
        for _ in range(k):
            op = rng.choice(sorted(by_op))
            evs = by_op[op]
            a = evs[pick_event(rng, len(evs))]
            if (a[0], a[1]) in used:
                continue
            used.add((a[0], a[1]))
            if a[2] == "write":
                kind = rng.choice(WRITE_FAULTS)
            elif a[2] == "read":
                kind = rng.choice(READ_FAULTS)
            else:
                kind = rng.choice(CLOSE_FAULTS + ["none"])
                if kind == "none":
                    continue
            f = {"op_index": a[0], "seam": "disk", "event": a[1], "kind": kind, "of": len(evs)}
            if kind in ("enospc", "eio_write"):
                f["sticky"] = rng.random() < 0.6
                f["partial"] = rng.choice([0, 0, 1, 3])
            if kind in ("short_write", "short_read"):
                f["n"] = rng.randint(1, 4)
            faults.append(f)
        return faults

    # ------------------------------------------------------------------
    def execute(self, case, dry=False):
        res = Result()
        log = EventLog()
        ops = case["ops"]
        meta = case.get("meta", {})
        sig_ops = []
        compared = 0
        with World(case.get("config"), None if dry else case.get("faults"), log) as w:
            import graphslam.load as gload

            g = graphs.build(case["workload"])
            if not dry:
                self._probes_for_graph(res, case, g)
            acked = {}  # path -> spec snapshot of the graph whose export to path was acknowledged
            origin = graphs.spec_of_graph(g)  # the graph the current chain started from
            cycles_since_origin = 0
            n_cycles = 0
            inexp = meta.get("inexpressible")
            poisoned = False  # the owner edited an offset in place: the graph may have become inexpressible
            for i, op in enumerate(ops):
                w.begin_op(i)
                kind = op["op"]
                if kind == "optimize":
                    w.set_stdout({"kind": "memory"})
                    try:
                        g.optimize(max_iter=op["max_iter"], verbose=False)
                    except Exception as e:  # noqa
                        log.note("optimize", "raised:" + type(e).__name__)
                    origin = graphs.spec_of_graph(g)
                    cycles_since_origin = 0
                    sig_ops.append("optimize")
                    continue
                if kind == "mutate":
                    # the owner of the graph re-weights an edge, replaces a measurement, moves a vertex or edits an offset parameter
                    what = op["what"]
                    sc = float(op["scale"])
                    done = False
                    if what == "information" and g._edges:
                        e = g._edges[op["k"] % len(g._edges)]
                        e.information = np.array(e.information, dtype=np.float64) * sc
                        done = True
                    elif what == "estimate" and g._edges:
                        e = g._edges[op["k"] % len(g._edges)]
                        spec = graphs.pose_to_spec(e.estimate)
                        vals = [xf(v) for v in spec["v"]]
                        vals[0] = vals[0] * sc + 0.25
                        e.estimate = graphs.make_pose(spec["t"], vals)
                        done = True
                    elif what == "vertex" and g._vertices:
                        v = g._vertices[op["k"] % len(g._vertices)]
                        spec = graphs.pose_to_spec(v.pose)
                        vals = [xf(x) for x in spec["v"]]
                        vals[1] = vals[1] * sc - 0.125
                        v.pose = graphs.make_pose(spec["t"], vals)
                        done = True
                    elif what == "vertex_inplace" and g._vertices:
                        # the owner overwrites the numbers of a vertex pose in place (same object)
                        v = g._vertices[op["k"] % len(g._vertices)]
                        v.pose[0] = float(v.pose[0]) * sc - 0.125
                        v.pose[1] = float(v.pose[1]) + 0.75
                        done = True
                    elif what == "recreate":
                        # the graph goes through pickle / deepcopy before it is exported (checkpoint, worker process)
                        import pickle

                        g = pickle.loads(pickle.dumps(g)) if op["k"] % 2 == 0 else copy.deepcopy(g)
                        res.n_checks += 1
                        if not dry and graphs.spec_of_graph(g) != origin and cycles_since_origin == 0:
                            pass
                        done = True
                    elif what == "offset_inplace":
                        # the owner edits the offset of one landmark edge in place (for a 2-D edge this makes the graph
                        # inexpressible; for a 3-D edge the parameter table shares the object after an import)
                        lm = [e for e in g._edges if getattr(e, "offset", None) is not None]
                        if lm:
                            e = lm[op["k"] % len(lm)]
                            e.offset[0] = float(e.offset[0]) * sc + 0.5
                            done = True
                            poisoned = True
                    elif what == "raw_heading":
                        # the owner writes a heading in place (an in-range double the constructor's wrap need not produce)
                        se2 = [v for v in g._vertices if graphs.type_name(v.pose) == "SE2"]
                        if se2:
                            v = se2[op["k"] % len(se2)]
                            v.pose[2] = [0.7, 0.1, 1e-10, -2.5, 0.3, 3.0, 1e-17][op["k"] % 7]
                            done = True
                    elif what == "param" and getattr(g, "_g2o_params", None):
                        # an offset parameter and the edges that use it change together (they share the pose object after an import)
                        keys = [k for k in g._g2o_params if k[0] == "PARAMS_SE3OFFSET"]
                        if keys:
                            key = keys[op["k"] % len(keys)]
                            par = g._g2o_params[key]
                            spec = graphs.pose_to_spec(par.value)
                            vals = [xf(x) for x in spec["v"]]
                            vals[2] = vals[2] * sc + 0.5
                            newp = graphs.make_pose("SE3", vals)
                            par.value = newp
                            for e in g._edges:
                                if getattr(e, "offset_id", None) == key[1] and getattr(e, "offset", None) is not None and graphs.type_name(e.offset) == "SE3":
                                    e.offset = newp
                            done = True
                    if done and not dry:
                        res.probe("mutated_between_exports")
                    origin = graphs.spec_of_graph(g)
                    cycles_since_origin = 0
                    sig_ops.append("mutate:" + what if done else "mutate:skip")
                    log.note("mutate", [what, done])
                    continue
                if kind == "import_check":
                    # re-read a file whose export was acknowledged earlier; the current graph is not replaced
                    if op["path"] not in acked:
                        sig_ops.append("import_check_skipped")
                        continue
                    fired_before = len(w.plan.fired)
                    raised = None
                    g3 = None
                    try:
                        g3 = Graph.from_g2o(op["path"])
                    except Exception as e:  # noqa
                        raised = e
                    fired_kinds = {f["kind"] for f in w.plan.fired[fired_before:]}
                    sig_ops.append("import_check:" + ("raised" if raised is not None else "ok"))
                    log.note("import_check", type(raised).__name__ if raised is not None else "ok")
                    if dry:
                        continue
                    res.probe("import_check_of_earlier_file")
                    if raised is not None:
                        if "eio_read" in fired_kinds and isinstance(raised, OSError):
                            continue
                        res.violate("C13:import-raised", "op %d re-import of an acknowledged export raised %s: %s" % (i, type(raised).__name__, raised))
                        break
                    if "eio_read" in fired_kinds:
                        res.violate("C13:read-fault-swallowed", "op %d from_g2o returned a graph although a read of the device failed with EIO" % i)
                        break
                    m = self._compare(acked[op["path"]], g3, None, 1, res)
                    if m is not None:
                        res.violate("C13:lossy:" + m[0], "op %d re-import of %s (written before the graph was changed): %s" % (i, op["path"], m[1]))
                        break
                    compared += 1
                    continue
                if kind in ("export", "export_again"):
                    before = graphs.spec_of_graph(g)
                    bytes_before = bytes(w.disk.files[op["path"]]) if op["path"] in w.disk.files else None
                    fired_before = len(w.plan.fired)
                    raised = None
                    try:
                        g.to_g2o(pathlib.PurePosixPath(op["path"]) if op.get("pathlib") else op["path"])
                    except Exception as e:  # noqa
                        raised = e
                    fired_kinds = {f["kind"] for f in w.plan.fired[fired_before:]}
                    hard = bool(fired_kinds & HARD)
                    oc = "export_raised:" + type(raised).__name__ if raised is not None else "export_ok"
                    sig_ops.append(oc + ("" if not fired_kinds else "+" + "+".join(sorted(fired_kinds))))
                    log.note("export", [oc, len(w.disk.files.get(op["path"], b""))])
                    if dry:
                        if raised is None:
                            acked[op["path"]] = before
                        continue
                    res.outcome(oc.split(":")[0])
                    if raised is not None:
                        res.probe("export_raised")
                    # the in-memory graph is untouched by an export, successful or not
                    res.n_checks += 1
                    after = graphs.spec_of_graph(g)
                    if after != before:
                        res.violate("C13:export-mutated-graph", "op %d %s changed the in-memory graph" % (i, oc))
                        break
                    if raised is not None:
                        acked.pop(op["path"], None)
                        if isinstance(raised, OSError):
                            if not hard:
                                res.violate("C13:export-raised-without-fault", "op %d to_g2o raised %r although no hard device fault fired (benign faults: %s)"
                                            % (i, raised, sorted(fired_kinds)))
                                break
                        elif (inexp or poisoned) and isinstance(raised, (NotImplementedError, ValueError, KeyError, TypeError, AssertionError)):
                            res.probe("inexpressible_refused")
                            # a refusal writes nothing: the destination must not be left holding a different (partial) graph
                            res.n_checks += 1
                            bytes_after = bytes(w.disk.files[op["path"]]) if op["path"] in w.disk.files else None
                            if bytes_after != bytes_before and not fired_kinds:
                                res.violate("C13:refusal-clobbered-file",
                                            "op %d to_g2o refused the graph (%s) but %s: the content was written differently as well as refused"
                                            % (i, type(raised).__name__,
                                               "created %s with %d bytes of a partial graph" % (op["path"], len(bytes_after or b"")) if bytes_before is None
                                               else "replaced the %d bytes at %s by %d bytes of a partial graph" % (len(bytes_before), op["path"], len(bytes_after or b""))))
                                break
                        else:
                            res.violate("C13:export-raised", "op %d to_g2o raised %s: %s on content the format can express" % (i, type(raised).__name__, raised))
                            break
                        continue
                    # acknowledged
                    if hard:
                        res.violate("C13:hard-fault-swallowed", "op %d to_g2o returned normally although a hard device fault fired (%s): the error was swallowed"
                                    % (i, sorted(fired_kinds & HARD)))
                        break
                    acked[op["path"]] = before
                    if inexp:
                        # acknowledged export of inexpressible content: it must at least import to the same graph
                        m = self._import_and_compare(w, op["path"], before, g, 1, res)
                        if m is not None:
                            res.violate("C13:inexpressible-written:" + inexp, "op %d to_g2o accepted content the format cannot express (%s) and wrote it differently: %s"
                                        % (i, inexp, m[1]))
                            break
                        compared += 1
                    if kind == "export_again":
                        # a re-export to the same path equals a first export to a fresh path, byte for byte
                        res.probe("export_again_checked")
                        w.log.op_index = -2000 - i
                        try:
                            g.to_g2o("/simfs/__fresh__.g2o")
                        finally:
                            w.log.op_index = i
                        res.n_checks += 1
                        got_b = bytes(w.disk.files.get(op["path"], b"\xff<no file>"))
                        fresh_b = bytes(w.disk.files.get("/simfs/__fresh__.g2o", b"\xff<no file>"))
                        if got_b != fresh_b:
                            res.violate("C13:re-export-differs", "op %d: re-exporting to an existing path left %d bytes, a fresh export has %d bytes"
                                        % (i, len(got_b), len(fresh_b)))
                            break
                        w.disk.files.pop("/simfs/__fresh__.g2o", None)
                    continue
                if kind == "import":
                    if op["path"] not in acked:
                        sig_ops.append("import_skipped")
                        continue
                    expected = acked[op["path"]]
                    fired_before = len(w.plan.fired)
                    raised = None
                    g2 = None
                    try:
                        if op.get("entry") == "load_g2o":
                            g2 = gload.load_g2o(op["path"])
                        else:
                            g2 = Graph.from_g2o(op["path"])
                    except Exception as e:  # noqa
                        raised = e
                    fired_kinds = {f["kind"] for f in w.plan.fired[fired_before:]}
                    oc = "import_raised:" + type(raised).__name__ if raised is not None else "import_ok"
                    sig_ops.append(oc + ("" if not fired_kinds else "+" + "+".join(sorted(fired_kinds))))
                    log.note("import", oc)
                    if dry:
                        if g2 is not None:
                            g = g2
                        continue
                    res.outcome(oc.split(":")[0])
                    if raised is not None:
                        res.probe("import_raised")
                        if "eio_read" in fired_kinds and isinstance(raised, OSError):
                            continue  # allowed: the read failed; the current graph stays
                        res.violate("C13:import-raised", "op %d import of an acknowledged export raised %s: %s" % (i, type(raised).__name__, raised))
                        break
                    if "eio_read" in fired_kinds:
                        res.violate("C13:read-fault-swallowed", "op %d from_g2o returned a graph although a read of the device failed with EIO" % i)
                        break
                    n_cycles += 1
                    cycles_since_origin += 1
                    if n_cycles >= 3:
                        res.probe("cycle_ge_3")
                    m = self._compare(expected, g2, g, 1, res)
                    if m is None and cycles_since_origin > 1:
                        m = self._compare(origin, g2, None, cycles_since_origin, res)
                        if m is not None:
                            m = (m[0], "after %d cycles vs the original graph: %s" % (cycles_since_origin, m[1]))
                    if m is not None:
                        res.violate("C13:lossy:" + m[0], "op %d import of %s: %s" % (i, op["path"], m[1]))
                        break
                    compared += 1
                    g = g2
                    poisoned = False
                    continue
                raise ValueError("unknown op %r" % kind)
            if dry:
                res.counts = w.op_counts()
                res.counts["__actions__"] = [list(a) for a in w.disk.actions]
                return res
            if w.disk.split_crlf:
                res.probe("short_read_split_crlf", w.disk.split_crlf)
            for f in w.plan.fired:
                if f["kind"] == "enospc":
                    res.probe("enospc_fired")
                if f["kind"] == "eio_close":
                    res.probe("error_at_close_fired")
                if f["kind"] == "short_write":
                    res.probe("short_write_fired")
            fsig = ["%s:%s@%s" % (f["seam"], f["kind"], pos_bucket(f["event"], f.get("of", 0))) for f in case.get("faults", [])]
            plat = (case.get("config") or {}).get("platform", {})
            sig = [meta.get("dim"), meta.get("magnitude"), meta.get("ids"), meta.get("inexpressible"), plat.get("linesep"),
                   "small" if plat.get("bufsize", 8192) < 64 else "big", sig_ops, sorted(fsig)]
            res.faults_planned = len(case.get("faults", []))
            res.nontrivial = compared > 0 and bool(case["workload"]["edges"])
            finish_result(res, w, log, sig)
        return res

    # ------------------------------------------------------------------
    def _import_and_compare(self, w, path, expected, g, cycles, res):
        saved = w.log.op_index
        w.log.op_index = -3000 - abs(saved)
        try:
            try:
                g2 = Graph.from_g2o(path)
            except Exception as e:  # noqa
                return ("does-not-import", "the written file does not import: %s: %s" % (type(e).__name__, e))
            return self._compare(expected, g2, g, cycles, res)
        finally:
            w.log.op_index = saved

    def _compare(self, expected, g2, g_exported, cycles, res):
        for v in g2._vertices:
            if not isinstance(v.id, numbers.Integral) or isinstance(v.id, bool):
                return ("vertex-id", "imported vertex id %r is a %s" % (v.id, type(v.id).__name__))
        for e in g2._edges:
            for vid in e.vertex_ids:
                if not isinstance(vid, numbers.Integral):
                    return ("edge-ids", "imported edge vertex id %r is a %s" % (vid, type(vid).__name__))
        try:
            got = graphs.spec_of_graph(g2)
        except Exception as e:  # noqa
            return ("unknown-objects", "imported graph holds objects the model does not know: %s" % e)
        res.n_checks += 1
        m = simio.cmp_graph_specs(expected, got, cycles, strict_angles=True)
        if m is not None:
            return m
        if g_exported is not None:
            res.n_checks += 1
            with np.errstate(all="ignore"):
                c1 = float(g_exported.calc_chi2()) if g_exported._edges else 0.0
                c2 = float(g2.calc_chi2()) if g2._edges else 0.0
            k1, k2 = simio.chi2_class(c1), simio.chi2_class(c2)
            if k1 != "finite" or k2 != "finite":
                res.probe("chi2_nonfinite")
                if k1 != k2:
                    return ("chi2", "chi^2 %r before export, %r after import" % (c1, c2))
            elif abs(c1 - c2) > 1e-12 * max(abs(c1), abs(c2)) * cycles + 1e-300:
                return ("chi2", "chi^2 %r before export, %r after import (rel %.3g)" % (c1, c2, abs(c1 - c2) / max(abs(c1), abs(c2))))
        return None

    def _probes_for_graph(self, res, case, g):
        meta = case.get("meta", {})
        plat = (case.get("config") or {}).get("platform", {})
        if plat.get("linesep") == "\r\n":
            res.probe("crlf_platform")
        if meta.get("float32_information"):
            res.probe("float32_information")
        if meta.get("scaled_information"):
            res.probe("scaled_information")
        if (case.get("config") or {}).get("numpy_print", {}).get("kind") == "legacy113":
            res.probe("legacy_print_mode")
        if meta.get("magnitude") == "huge":
            res.probe("huge_magnitude")
        if meta.get("magnitude") == "tiny":
            res.probe("tiny_magnitude")
        if meta.get("cross_terms"):
            res.probe("cross_terms")
        if any(v.id < 0 for v in g._vertices):
            res.probe("neg_id")
        if any(v.id > 2**32 for v in g._vertices):
            res.probe("big_id")
        if getattr(g, "_g2o_params", None):
            res.probe("params_table")
        for v in g._vertices:
            if len(v.pose) == 7 and v.pose[6] < 0:
                res.probe("w_negative_vertex")
                break
        for v in g._vertices:
            if len(v.pose) == 3 and graphs.type_name(v.pose) == "SE2" and abs(v.pose[2]) == math.pi:
                res.probe("angle_pi_stored")
                break
        for e in g._edges:
            if hasattr(e.estimate, "__len__") and len(e.estimate) == 7 and e.estimate[6] < 0:
                res.probe("w_negative_measurement")
                break

    def shrink_moves(self, case):
        for c in OptEngineBase.shrink_moves(self, case):
            yield c
        w = case["workload"]
        for k in range(len(w.get("params") or [])):
            c = copy.deepcopy(case)
            del c["workload"]["params"][k]
            yield c
        # simplify information matrices to identity, numbers to small ones
        for k, e in enumerate(w["edges"]):
            n = len(e["information"])
            ident = fxm(np.eye(n).tolist())
            if e["information"] != ident:
                c = copy.deepcopy(case)
                c["workload"]["edges"][k]["information"] = ident
                yield c
