"""Self-tests: determinism of the simulator and sensitivity to seeded mutants.

  check selftest determinism [--n N] [IDs...]
  check selftest digests --n N --jobs J ID        (helper: prints JSON)
  check selftest mutants [IDs...]                 (see gsim/mutants.py)
"""

import json
import multiprocessing
import os
import subprocess
import sys
from concurrent.futures import ProcessPoolExecutor

from . import runner

_ENG = None


def _one(args):
    base, tier, i = args
    r = runner.run_one(_ENG, base, tier, i)
    if "harness_error" in r:
        return (i, "HARNESS:" + r["harness_error"][-300:], [])
    return (i, r["digest"], [v["class"] for v in r["violations"]])


def digests(engine_cls, n, jobs, base=12345, tier="quick"):
    global _ENG
    _ENG = engine_cls()
    args = [(base, tier, i) for i in range(n)]
    if jobs <= 1:
        return [_one(a) for a in args]
    ctx = multiprocessing.get_context("fork")
    with ProcessPoolExecutor(max_workers=jobs, mp_context=ctx) as pool:
        return list(pool.map(_one, args, chunksize=4))


def _fresh(prop, n, jobs, hashseed):
    env = dict(os.environ)
    env["PYTHONHASHSEED"] = str(hashseed)
    p = subprocess.run(
        [sys.executable, os.path.join(runner.VERIF, "check"), "selftest", "digests", "--n", str(n), "--jobs", str(jobs), prop],
        capture_output=True, text=True, env=env, timeout=1800,
    )
    if p.returncode != 0:
        raise RuntimeError("fresh interpreter failed: " + p.stderr[-2000:])
    return [tuple(x) if not isinstance(x, list) else (x[0], x[1], x[2]) for x in json.loads(p.stdout.strip().splitlines()[-1])]


def determinism(table, argv):
    n = 200
    props = []
    it = iter(argv)
    for a in it:
        if a == "--n":
            n = int(next(it))
        else:
            props.append(a)
    props = props or sorted(table)
    bad = 0
    for prop in props:
        a = digests(table[prop], n, 1)
        b = digests(table[prop], n, 1)
        c = digests(table[prop], n, 16)
        d = _fresh(prop, n, 1, 4242)
        e = _fresh(prop, n, 16, 99)
        herr = [x for x in a if str(x[1]).startswith("HARNESS")]
        ok = True
        for name, other in (("same-process-twice", b), ("16-workers", c), ("fresh-interp-hashseed-4242", d), ("fresh-interp-16-workers-hashseed-99", e)):
            diff = [i for i in range(n) if tuple(a[i][:2]) != tuple(other[i][:2]) or list(a[i][2]) != list(other[i][2])]
            if diff:
                ok = False
                print("DETERMINISM-FAIL %s vs %s: %d/%d runs differ, first indices %s" % (prop, name, len(diff), n, diff[:5]))
        if herr:
            ok = False
            print("DETERMINISM-FAIL %s: %d harness errors, e.g. %s" % (prop, len(herr), herr[0][1]))
        print("determinism %s: %s (%d seeds x 5 executions)" % (prop, "ok" if ok else "FAILED", n))
        bad += 0 if ok else 1
    return 2 if bad else 0


def main(table, argv):
    if not argv:
        print(__doc__)
        return 2
    if argv[0] == "determinism":
        return determinism(table, argv[1:])
    if argv[0] == "digests":
        n, jobs = 50, 1
        rest = argv[1:]
        it = iter(rest)
        prop = None
        for a in it:
            if a == "--n":
                n = int(next(it))
            elif a == "--jobs":
                jobs = int(next(it))
            else:
                prop = a
        print(json.dumps(digests(table[prop], n, jobs)))
        return 0
    if argv[0] == "mutants":
        from . import mutants

        return mutants.main(table, argv[1:])
    print(__doc__)
    return 2
