"""C12 -- faithful report, documented stopping rule, no hidden state.

Engine ``simopt``: histories of optimize() calls, each under its own stdout
sink and clock personality, compared with a single-step stepper twin, an
independently written stopping rule and a fresh clone (DESIGN.md section 4, C12).
"""

import copy
import math
import re

import numpy as np

from . import graphs
from .core import EventLog, Result
from .simopt import OptEngineBase, draw_config, finish_result, pos_bucket, poses_snapshot
from .world import SimulatedInterrupt, World

EPS = float(np.finfo(float).eps)
CHI_REL = 1e-10
POSE_REL = 1e-9
STDOUT_FAULTS = ["broken_pipe", "eio", "closed"]
CLOCK_FAULTS = ["jump_fwd", "jump_back"]
SOLVER_FAULTS = ["stall"]
BENIGN = -1000000


def chi_close(a, b, rel=CHI_REL):
    if a is None or b is None:
        return a is None and b is None
    a = float(a)
    b = float(b)
    if math.isnan(a) or math.isnan(b):
        return math.isnan(a) and math.isnan(b)
    if math.isinf(a) or math.isinf(b):
        return a == b
    return abs(a - b) <= rel * max(abs(a), abs(b)) + 1e-300


def poses_close(types, xs, ys, rel=POSE_REL):
    """NaN positions must coincide; everything else close (SE(2) angles modulo 2*pi)."""
    for k, (t, a, b) in enumerate(zip(types, xs, ys)):
        na = np.isnan(a)
        nb = np.isnan(b)
        if not np.array_equal(na, nb):
            return False, k
        if np.any(na):
            a = np.where(na, 0.0, a)
            b = np.where(nb, 0.0, b)
        if np.any(np.isinf(a)) or np.any(np.isinf(b)):
            if not np.array_equal(a, b):
                return False, k
            continue
        ok, _ = graphs.pose_arrays_close(t, a, b, rel, abs_floor=1e-300)
        if not ok:
            return False, k
    return True, -1


def stop_decision(prev, cur, tol):
    """The documented rule on one pair.  Returns True / False / None (threshold tie: either answer accepted)."""
    prev = float(prev)
    cur = float(cur)
    if math.isnan(prev) or math.isnan(cur):
        return False
    if tol <= 0:
        # "relative decrease below 0" would need an increase, which the first clause excludes
        return False
    with np.errstate(all="ignore"):
        p = np.float64(prev)
        c = np.float64(cur)
        not_increased = bool(c <= p)
        rels = [float((p - c) / (p + np.float64(EPS))), float((p - c) / p) if p != 0 else float("nan")]
    # near tie on "did not increase"
    tie_le = math.isfinite(prev) and math.isfinite(cur) and abs(cur - prev) <= 1e-12 * max(abs(prev), 1e-300) and cur != prev
    decisions = set()
    for r in rels:
        if math.isnan(r):
            decisions.add(None)
            continue
        if abs(r - tol) <= 1e-9 * max(tol, 1e-300):
            decisions.add(None)
            continue
        decisions.add(bool(r < tol))
    if tie_le:
        # the <= test hinges on rounding noise; the relative decrease is ~0
        below = any(d for d in decisions if d is not None) or None in decisions
        return None if below else False
    if not not_increased:
        return False
    if decisions == {True}:
        return True
    if decisions == {False}:
        return False
    return None


def eps_kind(prev, cur, tol):
    """True when the pair is decided differently by (prev-cur)/(prev+eps) and (prev-cur)/prev, clear of any threshold tie:
    whichever of the two the implementation uses, it has to use the same one at every place the rule is evaluated."""
    prev, cur = float(prev), float(cur)
    if not (math.isfinite(prev) and math.isfinite(cur)) or tol <= 0 or prev <= 0 or cur > prev:
        return False
    if abs(cur - prev) <= 1e-12 * max(abs(prev), 1e-300) and cur != prev:
        return False
    with np.errstate(all="ignore"):
        rels = [float((np.float64(prev) - cur) / (np.float64(prev) + np.float64(EPS))), float((np.float64(prev) - cur) / np.float64(prev))]
    if any(math.isnan(r) or abs(r - tol) <= 1e-6 * tol for r in rels):
        return False
    return (rels[0] < tol) != (rels[1] < tol)


ROW = re.compile(r"^\s*(\d+)\s+(-?(?:\d+\.\d+|inf|nan))(?:\s+(-?(?:\d+\.\d+|inf|nan)))?\s*$")


def parse_table(text):
    """The documented progress table -> list of (iteration, chi2, rel or None), or None if unparseable."""
    rows = []
    lines = [ln for ln in text.splitlines() if ln.strip()]
    if len(lines) < 2 or "Iteration" not in lines[0] or "chi^2" not in lines[0]:
        return None
    for ln in lines[2:]:
        m = ROW.match(ln)
        if not m:
            return None
        rows.append((int(m.group(1)), float(m.group(2)), None if m.group(3) is None else float(m.group(3))))
    return rows


def report_of(res):
    """Environment-independent part of an OptimizationResult."""
    its = []
    for it in res.iteration_results:
        its.append((it.chi2, it.rel_diff, bool(it.is_complete_iteration())))
    return {"converged": bool(res.converged), "num_iterations": res.num_iterations, "initial_chi2": res.initial_chi2,
            "final_chi2": res.final_chi2, "iterations": its}


def reports_equal(a, b):
    if a["converged"] != b["converged"] or a["num_iterations"] != b["num_iterations"]:
        return False, "converged/num_iterations"
    if not chi_close(a["initial_chi2"], b["initial_chi2"], 1e-9) or not chi_close(a["final_chi2"], b["final_chi2"], 1e-9):
        return False, "initial/final chi2"
    if len(a["iterations"]) != len(b["iterations"]):
        return False, "len(iteration_results)"
    for k, (x, y) in enumerate(zip(a["iterations"], b["iterations"])):
        if x[2] != y[2] or not chi_close(x[0], y[0], 1e-9):
            return False, "iteration %d" % k
    return True, ""


class C12(OptEngineBase):
    PROPERTY = "C12"
    SWEEP_MENU = {"stdout": STDOUT_FAULTS, "solver": SOLVER_FAULTS, "usercode": ["interrupt"]}
    TIERS = {
        "quick": {"runs": 1600, "budget_s": 75, "chunk": 8},
        "thorough": {"runs": 26000, "budget_s": 900, "chunk": 16},
    }
    RULE = (
        "Each run = one seeded case: swarm config, a pose graph of 2..12 vertices (converging, slowly converging, diverging "
        "and NaN-producing classes via init-noise and fixed-set class), a history of 1..6 optimize() calls (tol in {0,1e-12..1e-1}, "
        "max_iter 1..30, verbose, fix_first_pose) interleaved with queries, each call under its own stdout kind and clock "
        "personality, and 0..2 faults (stdout write failures, clock jumps, solver stalls) placed at (op, seam, event) from a "
        "dry run. Oracles: stepper twin (optimize(max_iter=1,tol=0) in a benign environment) for every reported chi^2 and for "
        "the poses after each call; an independent implementation of the documented stopping rule with guard bands; printed "
        "table vs report; fresh clone built from visible state replays the next call. Non-trivial = >=1 completed optimize with "
        ">=1 update compared against the stepper; distinct = distinct signature (family, topology, per-call (max_iter bucket, tol, "
        "verbose, stdout kind, clock kind, outcome), faults as seam:kind@first|middle|last)."
    )
    ASSUMPTIONS = [
        "the stepper twin uses the real optimize(max_iter=1, tol=0, verbose=False) in a benign environment; agreement of k-step calls with k single steps is the split clause itself",
        "threshold ties of the stopping rule (|rel-tol| within 1e-9 relative, chi^2 ties within 1e-12 relative, denominators chi2 vs chi2+eps) are accepted either way",
        "durations are not checked (they are the clock's business); rel_diff is only required to be consistent in magnitude with the reported chi^2 values",
        "an unparseable verbose table is counted, not flagged",
    ]
    PROBES = [
        "early_stop", "stop_at_i1", "hit_max_iter_converged", "hit_max_iter_not_converged", "chi2_increase_seen", "nan_chi2",
        "chi2_exact_zero", "split_ge_3", "clock_backwards", "clock_frozen", "stdout_failed", "clone_after_abort", "clone_checked",
        "table_parsed", "table_unparsed", "stop_rule_ambiguous", "one_rule_twin", "stdout_none", "str_parsed", "singular_raised_as_error", "called_with_defaults", "interrupted_in_user_code", "nonunit_vertex_quaternion", "user_edit_between_calls", "graph_pickled_or_deepcopied_between_calls", "verbosity_flip_on_natural_failure", "solver_raised_naturally", "all_warnings_are_errors",
    ]

    def generate(self, rng, tier, index):
        config = draw_config(rng)
        workload, meta = graphs.gen_opt_workload(rng, {"self_loops": False, "alias_poses": 0.1, "nonunit_quats": 0.1, "huge_scale": 0.02, "init_noise": ["tiny", "moderate", "moderate", "moderate", "far"]})
        verts = workload["vertices"]
        ids = [v["id"] for v in verts]
        comps = graphs.components(workload)
        cls = rng.choice(["per_component", "per_component", "per_component", "per_component", "none", "several", "all"])
        fixed = set()
        if cls == "per_component":
            for c in comps:
                fixed.add(rng.choice(c))
        elif cls == "several":
            fixed.update(rng.sample(ids, rng.randint(1, max(1, len(ids) // 2))))
        elif cls == "all":
            fixed.update(ids)
        for v in verts:
            v["fixed"] = v["id"] in fixed
        meta["fixed_class"] = cls
        n_calls = rng.choice([1, 2, 2, 3, 3, 4, 6])
        long_hist = rng.random() < 0.02 and len(verts) <= 8
        if long_hist:
            n_calls = rng.randint(10, 18)  # a long session: something that only happens on the N-th call
            meta["long_history"] = True
        ops = []
        for k in range(n_calls):
            if rng.random() < 0.2:
                ops.append({"op": "query"})
            if k > 0 and rng.random() < 0.1:
                # between two calls the graph goes through pickle or deepcopy (checkpointing, multiprocessing)
                ops.append({"op": "recreate", "how": rng.choice(["pickle", "deepcopy"])})
            if k > 0 and rng.random() < 0.12:
                # between two calls the user re-positions a vertex or toggles a fixed flag; the stepper twin follows
                r2 = rng.random()
                if r2 < 0.25:
                    # the user re-weights an edge or replaces its measurement between two calls
                    ops.append({"op": "edit_edge", "k": rng.randrange(1000), "what": rng.choice(["information", "estimate"]), "scale": rng.choice([2.0, 0.5, 3.0])})
                elif r2 < 0.6:
                    ops.append({"op": "move_vertex", "k": rng.randrange(len(verts)), "delta": [rng.gauss(0, 0.3) for _ in range(6)], "inplace": rng.random() < 0.5})
                elif rng.random() < 0.5:
                    ops.append({"op": "set_fixed", "k": rng.randrange(len(verts)), "value": rng.random() < 0.5})
                else:
                    # release one of the vertices that are fixed at that moment (k-th of them)
                    ops.append({"op": "set_fixed", "k": rng.randrange(len(verts)), "value": False, "among_fixed": True})
            small = rng.random() < 0.5
            ops.append({
                "op": "optimize",
                "max_iter": rng.randint(1, 4) if (small or long_hist) else rng.randint(5, 30),
                "tol": rng.choice([0.0, 0.0, 1e-12, 1e-9, 1e-6, 1e-4, 1e-4, 1e-3, 1e-2, 1e-1]),
                "fix_first_pose": rng.random() < 0.35,
                "verbose": rng.random() < 0.5,
                "stdout": {"kind": rng.choice(["memory", "memory", "memory", "none", "slow", "ascii", "cp1252"])},
                "clock": rng.choice(["steady", "steady", "frozen", "epoch0"]),
                "clone_check": rng.random() < 0.5,
            })
            if rng.random() < 0.12:
                ops[-1]["arg_types"] = rng.choice(["np_float64", "np_float32", "np_int64", "int_tol"])
            if rng.random() < 0.12:
                ops[-1]["call_style"] = "positional"
            if rng.random() < 0.1:
                ops[-1]["flag_type"] = rng.choice(["np_bool", "int"])  # fix_first_pose=np.True_ / 1 / 0
            if rng.random() < 0.08:
                # the documented defaults: optimize() == optimize(tol=1e-4, max_iter=20, fix_first_pose=True, verbose=True)
                ops[-1].update({"use_defaults": True, "tol": 1e-4, "max_iter": 20, "fix_first_pose": True, "verbose": True})
        case = {"config": config, "workload": workload, "meta": meta, "ops": ops, "faults": []}
        want_error_all = rng.random() < 0.12
        if rng.random() < 0.6 or want_error_all:
            dry = self.execute(copy.deepcopy(case), dry=True)
            if want_error_all and dry.counts.get("__warnings__", 1) == 0 and config["warnings"]["kind"] == "always":
                # a host running with -W error: only for cases whose fault-free execution issues no warning at all
                # (a diverging run makes NumPy warn, and that is not this property's business)
                config["warnings"] = {"kind": "error_all"}
                meta["error_all"] = True
            else:
                menu = {"stdout": STDOUT_FAULTS, "clock": CLOCK_FAULTS, "solver": SOLVER_FAULTS, "usercode": ["interrupt"]}
                case["faults"] = self.plan_faults(rng, case, dry.counts, menu, max_faults=2)
        return case

    # ------------------------------------------------------------------
    def _benign_optimize(self, w, g, slot, **kw):
        """Run optimize() outside the fault-addressable op namespace, silent, steady clock."""
        saved_op = w.log.op_index
        saved_kind = w.clock.kind
        saved_stdout = w.stdout
        import sys

        saved_sys = sys.stdout
        w.log.op_index = BENIGN - slot
        w.clock.kind = "steady"
        try:
            w.set_stdout({"kind": "memory"})
            return g.optimize(verbose=False, **kw)
        finally:
            w.log.op_index = saved_op
            w.clock.kind = saved_kind
            w.stdout = saved_stdout
            sys.stdout = saved_sys

    def execute(self, case, dry=False):
        res = Result()
        log = EventLog()
        ops = case["ops"]
        meta = case.get("meta", {})
        sig_ops = []
        compared_updates = 0
        with World(case.get("config"), None if dry else case.get("faults"), log) as w:
            A = graphs.build(case["workload"])
            types = [graphs.type_name(v.pose) for v in A._vertices]
            if not dry and meta.get("nonunit_vertex_quaternion"):
                res.probe("nonunit_vertex_quaternion")
            B = None if dry else graphs.build(case["workload"])
            n_opt = 0
            force_clone = False
            for i, op in enumerate(ops):
                w.begin_op(i)
                if op["op"] == "query":
                    with w.benign():
                        c = A.calc_chi2()
                    log.note("query", repr(float(c)))
                    sig_ops.append("query")
                    continue
                if op["op"] == "recreate":
                    import pickle

                    if op["how"] == "pickle":
                        A = pickle.loads(pickle.dumps(A))
                    else:
                        A = copy.deepcopy(A)
                    if not dry:
                        res.probe("graph_pickled_or_deepcopied_between_calls")
                    log.note("recreate", op["how"])
                    sig_ops.append("recreate:" + op["how"])
                    continue
                if op["op"] == "edit_edge":
                    for G in [A]:
                        if not G._edges:
                            continue
                        e = G._edges[op["k"] % len(G._edges)]
                        if op["what"] == "information":
                            e.information = np.array(e.information, dtype=np.float64) * float(op["scale"])
                        elif isinstance(e.estimate, np.ndarray) and e.estimate.ndim:
                            spec = graphs.estimate_to_spec(e.estimate)
                            est = graphs.estimate_from_spec(spec)
                            est[0] = float(est[0]) * float(op["scale"]) + 0.25
                            e.estimate = est
                    if not dry:
                        res.probe("user_edit_between_calls")
                        force_clone = True
                        B = graphs.clone(A)  # the stepper restarts from the visible state the user's edit produced
                    log.note("edit_edge", [op["k"], op["what"]])
                    sig_ops.append("edit_edge:" + op["what"])
                    continue
                if op["op"] in ("move_vertex", "set_fixed"):
                    for G in [A]:
                        v = G._vertices[op["k"] % len(G._vertices)]
                        if op.get("among_fixed"):
                            fx_ = [u for u in G._vertices if u.fixed]
                            if fx_:
                                v = fx_[op["k"] % len(fx_)]
                        if op["op"] == "set_fixed":
                            v.fixed = bool(op["value"])
                        else:
                            d = np.array(op["delta"][: v.pose.COMPACT_DIMENSIONALITY], dtype=np.float64)
                            if v.pose.COMPACT_DIMENSIONALITY == 6:
                                d[3:] *= 0.3
                            if op.get("inplace"):
                                v.pose[:] = v.pose + d
                            else:
                                v.pose = v.pose + d
                    if not dry:
                        res.probe("user_edit_between_calls")
                        force_clone = True  # whatever the earlier calls left behind must not matter after the edit
                        # the stepper restarts from the visible state the edit produced (an in-place edit of a pose object that
                        # is shared with another vertex or an edge moves both; replaying the op on a twin whose objects are
                        # shared differently would not)
                        B = graphs.clone(A)
                    log.note(op["op"], op["k"])
                    sig_ops.append(op["op"])
                    continue
                n_opt += 1
                kw = {"tol": op["tol"], "max_iter": op["max_iter"], "fix_first_pose": op["fix_first_pose"]}
                if op.get("flag_type") == "np_bool":
                    kw["fix_first_pose"] = np.bool_(op["fix_first_pose"])
                elif op.get("flag_type") == "int":
                    kw["fix_first_pose"] = int(op["fix_first_pose"])
                at = op.get("arg_types")
                if at == "np_float64":
                    kw["tol"] = np.float64(op["tol"])
                elif at == "np_float32":
                    kw["tol"] = np.float32(op["tol"])
                    op = dict(op, tol=float(np.float32(op["tol"])))  # the reference rule sees the value that was passed
                elif at == "np_int64":
                    kw["max_iter"] = np.int64(op["max_iter"])
                elif at == "int_tol" and op["tol"] == 0.0:
                    kw["tol"] = 0
                # fresh clone of the visible state, taken before the call
                C = None
                werr = (case.get("config") or {}).get("warnings", {}).get("kind") == "error"
                if not dry and (op.get("clone_check") or force_clone or werr):
                    C = graphs.clone(A)
                w.clock.kind = op.get("clock", "steady")
                if w.clock.kind == "frozen" and not dry:
                    res.probe("clock_frozen")
                w.set_stdout(op.get("stdout") or {"kind": "memory"})
                if (op.get("stdout") or {}).get("kind") == "none" and op["verbose"] and not dry:
                    res.probe("stdout_none")
                sink = w.stdout
                fired_before = len(w.plan.fired)
                nsr_before = w.natural_solver_raises
                raised = None
                result = None
                try:
                    if op.get("use_defaults"):
                        if not dry:
                            res.probe("called_with_defaults")
                        result = A.optimize()
                    elif op.get("call_style") == "positional":
                        result = A.optimize(kw["tol"], kw["max_iter"], kw["fix_first_pose"], op["verbose"])
                    else:
                        result = A.optimize(verbose=op["verbose"], **kw)
                except SimulatedInterrupt as e:  # Ctrl-C delivered by the simulator while user edge code runs
                    raised = e
                except Exception as e:  # noqa
                    raised = e
                fired = w.plan.fired[fired_before:]
                fired_kinds = {f["kind"] for f in fired}
                if dry:
                    sig_ops.append("optimize")
                    continue
                if "jump_back" in fired_kinds:
                    res.probe("clock_backwards")
                if raised is not None:
                    sig_ops.append(["optimize", "raised:" + type(raised).__name__])
                    res.outcome("raised:" + type(raised).__name__)
                    log.note("optimize", "raised:" + type(raised).__name__)
                    natural = type(raised).__name__ == "MatrixRankWarning" and (case.get("config") or {}).get("warnings", {}).get("kind") == "error"
                    # (an efficiency warning turned into an error is not a refusal of the *system*: the library chose the
                    # matrix format it hands over -- finding F10)
                    solver_refused = w.natural_solver_raises > nsr_before and not natural and type(raised).__name__ != "SparseEfficiencyWarning"
                    if solver_refused:
                        # SciPy itself raised (e.g. SuperLU "failed to factorize matrix" on a NaN/inf system): the call may
                        # fail; like after a failed print, only the fresh-clone check judges what follows
                        res.probe("solver_raised_naturally")
                        res.outcome("raised-by-solver:" + type(raised).__name__)
                        B = graphs.clone(A)
                        force_clone = True
                        sig_ops.append(["optimize", "raised-by-solver"])
                        log.note("optimize", "raised-by-solver:" + type(raised).__name__)
                        continue
                    if natural:
                        res.probe("singular_raised_as_error")
                    if natural and C is not None and not fired_kinds:
                        # the same call with the other verbosity on a fresh clone must end the same way (printing does
                        # not alter results -- including *whether* there is a result)
                        res.n_checks += 1
                        saved_op, saved_kind, saved_out = w.log.op_index, w.clock.kind, w.stdout
                        import sys as _sys

                        saved_sys = _sys.stdout
                        w.log.op_index = BENIGN - 900 - i
                        w.set_stdout({"kind": "memory"})
                        other = None
                        try:
                            C.optimize(verbose=not op["verbose"], **kw)
                        except Exception as e2:  # noqa
                            other = e2
                        finally:
                            w.log.op_index, w.clock.kind, w.stdout = saved_op, saved_kind, saved_out
                            _sys.stdout = saved_sys
                        res.probe("verbosity_flip_on_natural_failure")
                        if type(other) is not type(raised):
                            res.violate("C12:verbose-changes-outcome", "op %d optimize(verbose=%r) raised %s on a singular system (warnings are errors), "
                                        "the same call with verbose=%r on a fresh clone %s" % (i, op["verbose"], type(raised).__name__, not op["verbose"],
                                                                                             "returned normally" if other is None else "raised " + type(other).__name__))
                            break
                    interrupted = isinstance(raised, SimulatedInterrupt) and "interrupt" in fired_kinds
                    if interrupted:
                        res.probe("interrupted_in_user_code")
                    if not (fired_kinds & set(STDOUT_FAULTS)) and not natural and not interrupted:
                        res.violate("C12:unexpected-exception", "op %d optimize raised %s: %s with no failing sink" % (i, type(raised).__name__, raised))
                        break
                    if not natural and not interrupted:
                        res.probe("stdout_failed")
                    # the aborted call stopped somewhere; resynchronise the stepper from visible state
                    B = graphs.clone(A)
                    force_clone = True
                    continue
                rep = report_of(result)
                with w.benign():
                    post_chi2 = A.calc_chi2()
                after = poses_snapshot(A)
                log.note("optimize", [rep["converged"], rep["num_iterations"], repr(rep["final_chi2"])])
                # ---- stepper twin
                m = op["max_iter"]
                with w.benign():
                    chis = [B.calc_chi2()]
                n_upd = 0
                ambiguous = False
                ref_converged = False
                stopped_early = False
                bad = None
                split_raised = None
                for j in range(1, m + 1):
                    try:
                        self._benign_optimize(w, B, j, tol=0.0, max_iter=1, fix_first_pose=op["fix_first_pose"])
                    except Exception as e:  # noqa
                        split_raised = (j, e)
                        break
                    n_upd = j
                    with w.benign():
                        chis.append(B.calc_chi2())
                    d = stop_decision(chis[j - 1], chis[j], op["tol"])
                    if d is None:
                        ambiguous = True
                        res.probe("stop_rule_ambiguous")
                        if rep["num_iterations"] == j:
                            ref_converged = rep["converged"]
                            stopped_early = j < m
                            break
                        continue
                    if d:
                        ref_converged = True
                        stopped_early = j < m
                        break
                if op["fix_first_pose"] and m >= 1 and not B._vertices[0].fixed:
                    B._vertices[0].fixed = True
                ref_num = n_upd
                ref_len = ref_num + 1 if stopped_early else m
                if any(math.isnan(c) for c in chis):
                    res.probe("nan_chi2")
                if any(c == 0.0 for c in chis):
                    res.probe("chi2_exact_zero")
                if any(chis[k + 1] > chis[k] for k in range(len(chis) - 1)):
                    res.probe("chi2_increase_seen")
                if stopped_early:
                    res.probe("early_stop")
                    if ref_num == 1:
                        res.probe("stop_at_i1")
                elif ref_converged:
                    res.probe("hit_max_iter_converged")
                else:
                    res.probe("hit_max_iter_not_converged")
                oc = "converged" if rep["converged"] else ("nan" if any(math.isnan(c) for c in chis) else "max_iter")
                res.outcome(oc)
                sig_ops.append(["optimize", min(m, 5), op["tol"], op["verbose"], (op.get("stdout") or {}).get("kind"), op.get("clock"), oc,
                                "early" if stopped_early else "full"])

                def V(cls, msg):
                    res.violate("C12:" + cls, "op %d optimize(tol=%g, max_iter=%d, verbose=%r, fix_first_pose=%r): %s"
                                % (i, op["tol"], m, op["verbose"], op["fix_first_pose"], msg))

                if split_raised is not None and split_raised[0] > int(rep["num_iterations"] or 0):
                    split_raised = None  # a piece the call itself never attempted (threshold tie): nothing to compare
                if split_raised is not None:
                    V("split-raised", "the call returned normally, but the same run split into single-iteration calls raised %s: %s at its piece %d "
                      "(splitting does not reproduce the trajectory)" % (type(split_raised[1]).__name__, split_raised[1], split_raised[0]))
                    break

                # ---- bookkeeping vs the reference rule
                res.n_checks += 4
                if rep["num_iterations"] != ref_num:
                    V("num_iterations", "report says num_iterations=%r, the documented rule on the stepper's chi^2 sequence %s gives %d"
                      % (rep["num_iterations"], [float("%.6g" % c) for c in chis[:8]], ref_num))
                    break
                if not ambiguous and rep["converged"] != ref_converged:
                    V("converged", "report says converged=%r, the documented rule gives %r (chi^2 %s)" % (rep["converged"], ref_converged, [float("%.6g" % c) for c in chis[-3:]]))
                    break
                if len(rep["iterations"]) != ref_len:
                    V("len-iteration-results", "len(iteration_results)=%d, expected %d (num_iterations=%d, %s)"
                      % (len(rep["iterations"]), ref_len, ref_num, "stopped early" if stopped_early else "ran to max_iter"))
                    break
                n_complete = sum(1 for it in rep["iterations"] if it[2])
                if n_complete != ref_num:
                    V("complete-iterations", "%d iteration results claim to be complete, %d updates were performed" % (n_complete, ref_num))
                    break
                # ---- chi2 values
                res.n_checks += 3 + ref_num
                if not chi_close(rep["initial_chi2"], chis[0]):
                    V("initial-chi2", "initial_chi2=%r but chi^2 of the state before the call is %r" % (rep["initial_chi2"], chis[0]))
                    break
                if not chi_close(rep["final_chi2"], post_chi2):
                    V("final-chi2-vs-calc", "final_chi2=%r but calc_chi2() of the returned graph is %r" % (rep["final_chi2"], post_chi2))
                    break
                if not chi_close(rep["final_chi2"], chis[ref_num]):
                    V("final-chi2", "final_chi2=%r but the stepper's chi^2 after %d updates is %r" % (rep["final_chi2"], ref_num, chis[ref_num]))
                    break
                bad = None
                for j in range(ref_num):
                    it = rep["iterations"][j]
                    if not chi_close(it[0], chis[j + 1]):
                        bad = "iteration_results[%d].chi2=%r but chi^2 after %d updates is %r" % (j, it[0], j + 1, chis[j + 1])
                        break
                    prev = rep["initial_chi2"] if j == 0 else rep["iterations"][j - 1][0]
                    if it[1] is not None and prev is not None and it[0] is not None and math.isfinite(prev) and math.isfinite(it[0]) and prev > 0:
                        got = abs(it[1])
                        wants = [abs(it[0] - prev) / prev, abs(it[0] - prev) / (prev + EPS)]
                        if all(abs(got - want) > 1e-6 * max(want, got) + 1e-9 for want in wants):
                            bad = "iteration_results[%d].rel_diff=%r is inconsistent with the reported chi^2 values %r -> %r" % (j, it[1], prev, it[0])
                            break
                if bad:
                    V("iteration-chi2", bad)
                    break
                # ---- trajectory
                res.n_checks += 1
                ok, k = poses_close(types, after, poses_snapshot(B))
                if not ok:
                    V("trajectory", "poses after the call differ from the stepper's state after %d single-step calls at vertex #%d: %s vs %s "
                      "(split/verbose/clock/stdout dependence or hidden state)" % (ref_num, k, after[k].tolist(), np.array(B._vertices[k].pose).tolist()))
                    break
                compared_updates += ref_num
                if n_opt >= 3:
                    res.probe("split_ge_3")
                # ---- printed table
                if op["verbose"] and sink is not None and sink.kind != "none":
                    rows = parse_table(sink.getvalue())
                    if rows is None:
                        res.probe("table_unparsed")
                    else:
                        res.probe("table_parsed")
                        res.n_checks += 1
                        want_idx = list(range(ref_num + 1))
                        if [r[0] for r in rows] != want_idx:
                            V("table-rows", "printed iterations %s, expected %s" % ([r[0] for r in rows], want_idx))
                            break
                        tb = None
                        for r in rows:
                            c = chis[r[0]]
                            if math.isnan(c):
                                if not math.isnan(r[1]):
                                    tb = r
                            elif math.isinf(c):
                                if r[1] != c:
                                    tb = r
                            elif abs(r[1] - c) > 1e-4 + 1e-12 * abs(c):
                                tb = r
                        if tb:
                            V("table-chi2", "printed row %r but chi^2 after %d updates is %r" % (tb, tb[0], chis[tb[0]]))
                            break
                elif not op["verbose"] and sink is not None and sink.kind != "none" and sink.getvalue():
                    V("printed-when-quiet", "verbose=False but %d characters were printed" % len(sink.getvalue()))
                    break
                # ---- __str__ of the report must be renderable and agree (soft parse)
                try:
                    text = str(result)
                    rows = [ROW_STR.match(ln) for ln in text.splitlines()]
                    rows = [r for r in rows if r]
                    if rows:
                        res.probe("str_parsed")
                        if len(rows) != ref_num:
                            V("str-rows", "str(result) lists %d iterations, %d were performed" % (len(rows), ref_num))
                            break
                except Exception as e:
                    V("str-raised", "str(result) raised %s: %s" % (type(e).__name__, e))
                    break
                # ---- one rule: the pair a run examines when it gives up at max_iter is the pair a run allowed one more
                # iteration examines inside its loop; the two have to be judged alike (only worth a twin where the choice of
                # denominator matters)
                if C is not None and ambiguous and not stopped_early and ref_num == m and m >= 1 and eps_kind(chis[m - 1], chis[m], op["tol"]):
                    res.probe("one_rule_twin")
                    C2 = graphs.clone(C)
                    kw2 = dict(kw)
                    kw2["max_iter"] = m + 1
                    try:
                        r2 = report_of(self._benign_optimize(w, C2, 700 + i, **kw2))
                    except Exception:  # noqa
                        r2 = None
                    if r2 is not None:
                        res.n_checks += 1
                        inner = bool(r2["converged"]) and r2["num_iterations"] == m
                        if inner != bool(rep["converged"]):
                            V("one-rule", "the run stopped by max_iter=%d reports converged=%r for the pair chi^2 %r -> %r, the same run allowed %d "
                              "iterations %s at that very pair (the rule is applied differently at the two places)"
                              % (m, rep["converged"], chis[m - 1], chis[m], m + 1, "stopped as converged" if inner else "went on"))
                            break
                # ---- fresh clone replays the same call
                if C is not None:
                    res.probe("clone_checked")
                    if force_clone:
                        res.probe("clone_after_abort")
                        force_clone = False
                    try:
                        rc = self._benign_optimize(w, C, 500 + i, **kw)
                    except Exception as e:  # noqa
                        V("clone-raised", "the call returned normally on this graph, but raised %s: %s on a fresh clone of the visible state" % (type(e).__name__, e))
                        break
                    res.n_checks += 2
                    okr, why = reports_equal(rep, report_of(rc))
                    if not okr:
                        V("clone-report", "the same call on a fresh clone of the visible state reports differently (%s): %r vs %r"
                          % (why, {k: rep[k] for k in ("converged", "num_iterations", "initial_chi2", "final_chi2")},
                             {k: report_of(rc)[k] for k in ("converged", "num_iterations", "initial_chi2", "final_chi2")}))
                        break
                    ok, k = poses_close(types, after, poses_snapshot(C))
                    if not ok:
                        V("clone-poses", "the same call on a fresh clone of the visible state ends at different poses (vertex #%d): hidden state" % k)
                        break
            if dry:
                res.counts = w.op_counts()
                res.counts["__warnings__"] = len(w.warnings)
                return res
            if meta.get("error_all"):
                res.probe("all_warnings_are_errors")
            fsig = ["%s:%s@%s" % (f["seam"], f["kind"], pos_bucket(f["event"], f.get("of", 0))) for f in case.get("faults", [])]
            sig = [meta.get("family"), meta.get("topology"), meta.get("fixed_class"), sig_ops, sorted(fsig)]
            res.faults_planned = len(case.get("faults", []))
            res.nontrivial = compared_updates > 0
            finish_result(res, w, log, sig)
        return res


ROW_STR = re.compile(r"^\s*(\d+)\s+(-?(?:\d+\.\d+|inf|nan))\s+(-?(?:\d+\.\d+|inf|nan))\s+(-?\d+\.\d+)\s+(-?\d+\.\d+)\s+(-?\d+\.\d+)\s+(-?\d+\.\d+)\s*$")
