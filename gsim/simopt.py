"""Shared pieces of the optimizer engines (C06, C12, C15)."""

import copy
import math

import numpy as np

from . import graphs
from .core import EventLog, Result, sig_hash
from .world import World

CLOCK_KINDS = ["steady", "steady", "frozen", "epoch0"]
STDOUT_KINDS = ["memory", "memory", "none", "slow"]
BUFSIZES = [1, 3, 16, 61, 512, 8192]
ENCODINGS = ["utf-8", "utf-8", "latin-1", "cp1252", "ascii"]


def draw_platform(rng):
    return {
        "linesep": rng.choice(["\n", "\n", "\r\n"]),
        "encoding": rng.choice(ENCODINGS),
        "bufsize": rng.choice(BUFSIZES),
        "max_xfer": rng.choice([1, 2, 3, 5, 7, 13, 64, 256, 4096]),
        "mtime_granularity": rng.choice([1e-7, 1e-7, 1.0, 2.0]),  # ns-resolution file systems ... FAT's two seconds
    }


def draw_config(rng):
    return {
        "platform": draw_platform(rng),
        "clock": {"kind": rng.choice(CLOCK_KINDS), "start": 1.7e9, "salt": rng.randrange(1, 1 << 30)},
        "stdout": {"kind": rng.choice(STDOUT_KINDS)},
        "logger": {"kind": rng.choice(["default", "default", "error_level", "raising_handler", "debug_level"])},
        "warnings": {"kind": rng.choice(["always"] * 8 + ["error", "error", "error_sparse"])},
        "numpy_err": {"kind": rng.choice(["default"] * 6 + ["ignore", "ignore", "warn"])},
        "numpy_print": {"kind": rng.choice(["default"] * 8 + ["precision3", "formatter", "threshold", "legacy113", "legacy113"])},
    }


def pick_event(rng, n):
    """Event index within an op, biased to first / last / last-before-close."""
    if n <= 0:
        return 0
    r = rng.random()
    if r < 0.2:
        return 0
    if r < 0.4:
        return n - 1
    if r < 0.5 and n >= 2:
        return n - 2
    return rng.randrange(n)


def pos_bucket(event, n):
    if n <= 1 or event == 0:
        return "first"
    if event >= n - 1:
        return "last"
    return "middle"


def poses_snapshot(g):
    return [np.array(v.pose, dtype=np.float64, copy=True) for v in g._vertices]


def all_finite(arrs):
    return all(bool(np.all(np.isfinite(a))) for a in arrs)


def reference_reduced_step(g, fixed_ids):
    """One Gauss-Newton step of the *reduced* problem, assembled densely over the
    free unknowns only (rows/columns of fixed vertices deleted, not replaced).

    Uses the edges' own calc_error/calc_jacobians (C01/C02 are trusted here).
    Returns dict(ok, cond, dx_norm, new_poses{vertex index: ndarray}) or ok=False.
    """
    verts = g._vertices
    index = {}
    n = 0
    for k, v in enumerate(verts):
        if v.id in fixed_ids:
            continue
        index[id(v)] = (k, n)
        n += v.pose.COMPACT_DIMENSIONALITY
    if n == 0:
        return {"ok": True, "cond": 1.0, "dx_norm": 0.0, "x_norm": 0.0, "new": {}, "n_free": 0}
    H = np.zeros((n, n))
    b = np.zeros(n)
    for e in g._edges:
        err = np.atleast_1d(np.asarray(e.calc_error(), dtype=np.float64))
        jac = [np.atleast_2d(np.asarray(j, dtype=np.float64)) for j in e.calc_jacobians()]
        om = np.asarray(e.information, dtype=np.float64)
        for a, va in enumerate(e.vertices):
            ia = index.get(id(va))
            if ia is None:
                continue
            ja = jac[a]
            da = ja.shape[1]
            b[ia[1] : ia[1] + da] += ja.T @ om @ err
            for c, vc in enumerate(e.vertices):
                ic = index.get(id(vc))
                if ic is None:
                    continue
                jc = jac[c]
                H[ia[1] : ia[1] + da, ic[1] : ic[1] + jc.shape[1]] += ja.T @ om @ jc
    if not (np.all(np.isfinite(H)) and np.all(np.isfinite(b))):
        return {"ok": False, "why": "nonfinite-system"}
    try:
        cond = float(np.linalg.cond(H))
    except Exception:
        return {"ok": False, "why": "cond-failed"}
    if not math.isfinite(cond) or cond > 1e8:
        return {"ok": False, "why": "ill-conditioned", "cond": cond}
    dx = np.linalg.solve(H, -b)
    new = {}
    near_branch = False
    for v in verts:
        ent = index.get(id(v))
        if ent is None:
            continue
        k, off = ent
        d = v.pose.COMPACT_DIMENSIONALITY
        step = dx[off : off + d]
        if d == 6:
            rn = float(np.linalg.norm(step[3:]))
            if abs(rn - 1.0) < 1e-6:
                near_branch = True
        new[k] = np.array(v.pose + step, dtype=np.float64)
    xnorm = max([float(np.max(np.abs(np.asarray(v.pose)))) for v in verts] + [0.0])
    return {
        "ok": not near_branch, "why": "near-branch" if near_branch else None, "cond": cond,
        "dx_norm": float(np.max(np.abs(dx))) if n else 0.0, "x_norm": xnorm, "new": new, "n_free": n,
    }


class OptEngineBase:
    """Common generate/plan/shrink machinery for the optimizer engines."""

    ENGINE_NAME = "simopt"
    RUN_WALL_CAP_S = 300
    FINDING_PREDICATES = {}
    COMPONENTS = {
        "real": [
            "graphslam (all modules, imported from /repo working tree)", "numpy", "scipy.sparse.linalg.spsolve (SuperLU) unless the fault plan replaces that one call",
            "CPython io.TextIOWrapper/BufferedWriter/BufferedReader", "logging", "warnings",
        ],
        "stub": ["raw block device (SimRaw)", "wall clock (SimClock)", "stdout sink (SimStdout)", "solver fault wrapper (SimSolver)"],
    }

    # ---- fault planning from a dry run
    def plan_faults(self, rng, case, counts, menu, max_faults=2):
        """counts: {op_index: {seam: n}}; menu: {seam: [kinds]} -> list of faults."""
        slots = []
        for op, seams in sorted((k, v) for k, v in counts.items() if isinstance(k, int)):
            if op < 0:
                continue
            for seam, n in sorted(seams.items()):
                if seam in menu and n > 0:
                    slots.append((op, seam, n))
        faults = []
        if not slots:
            return faults
        k = rng.choice([1, 1, 1, 2, 2, 3][: max(1, max_faults * 2)])
        k = min(k, max_faults)
        # weight seams so that clock (many reads) does not swamp the others
        weights = [3.0 if s[1] in ("solver", "disk") else (2.0 if s[1] in ("stdout", "usercode") else 0.6) for s in slots]
        used = set()
        for _ in range(k):
            op, seam, n = rng.choices(slots, weights=weights)[0]
            ev = pick_event(rng, n)
            if (op, seam, ev) in used:
                continue
            used.add((op, seam, ev))
            kind = rng.choice(menu[seam])
            f = {"op_index": op, "seam": seam, "event": ev, "kind": kind, "of": n}
            if kind == "stall":
                f["seconds"] = rng.choice([1.0, 3600.0, 1e6])
            faults.append(f)
        return faults

    # ---- complete fault-position sweeps (thorough tier)
    SWEEP_EVERY = {"thorough": 25}
    SWEEP_MENU = {}
    SWEEP_MAX = 160

    def sweep_plans(self, case):
        """One single-fault plan per seam event of every op of the fault-free case (kinds round-robin)."""
        dry = self.execute(copy.deepcopy(case), dry=True)
        plans = []
        actions = dry.counts.get("__actions__")
        for op, seams in sorted((k, v) for k, v in dry.counts.items() if isinstance(k, int) and k >= 0):
            for seam, n in sorted(seams.items()):
                menu = self.SWEEP_MENU.get(seam)
                if not menu or n <= 0 or n > 64:
                    continue
                for ev in range(n):
                    kinds = menu
                    if seam == "disk" and actions is not None:
                        act = [a[2] for a in actions if a[0] == op and a[1] == ev]
                        act = act[0] if act else ""
                        kinds = self.DISK_MENU.get(act.split(":")[0])
                        if not kinds:
                            continue
                    kind = kinds[(ev + op) % len(kinds)]
                    f = {"op_index": op, "seam": seam, "event": ev, "kind": kind, "of": n}
                    if kind in ("enospc", "eio_write"):
                        f["sticky"] = (ev % 2 == 0)
                    if kind in ("short_write", "short_read"):
                        f["n"] = 1 + ev % 3
                    plans.append([f])
        if len(plans) > self.SWEEP_MAX:
            step = len(plans) / float(self.SWEEP_MAX)
            plans = [plans[int(i * step)] for i in range(self.SWEEP_MAX)]
        return plans

    DISK_MENU = {"write": ["enospc", "eio_write", "short_write"], "read": ["eio_read", "short_read"], "close": ["eio_close"]}

    # ---- shrinking moves on the workload graph
    def shrink_moves(self, case):
        w = case["workload"]
        # drop an edge
        for k in range(len(w["edges"])):
            c = copy.deepcopy(case)
            del c["workload"]["edges"][k]
            yield c
        # drop a vertex (and its edges)
        for k in range(len(w["vertices"])):
            if len(w["vertices"]) <= 1:
                break
            vid = w["vertices"][k]["id"]
            c = copy.deepcopy(case)
            del c["workload"]["vertices"][k]
            c["workload"]["edges"] = [e for e in c["workload"]["edges"] if vid not in e["ids"]]
            c["ops"] = [o for o in c["ops"] if o.get("v") != vid]
            if len(c["ops"]) != len(case["ops"]):
                continue  # op indices would shift; handled by op dropping instead
            yield c
        # config to defaults
        from .world import DEFAULT_CONFIG

        for key in ("clock", "stdout", "logger", "platform", "warnings", "numpy_print", "numpy_err"):
            if case.get("config", {}).get(key) and case["config"][key] != DEFAULT_CONFIG[key]:
                c = copy.deepcopy(case)
                c["config"][key] = copy.deepcopy(DEFAULT_CONFIG[key])
                yield c
        # unfix initially fixed vertices
        for k, v in enumerate(w["vertices"]):
            if v.get("fixed"):
                c = copy.deepcopy(case)
                c["workload"]["vertices"][k]["fixed"] = False
                yield c
        # simplify ops
        for k, o in enumerate(case["ops"]):
            if o.get("op") == "optimize":
                if o.get("max_iter", 1) > 1:
                    for m in (1, o["max_iter"] // 2):
                        if m >= 1 and m != o["max_iter"]:
                            c = copy.deepcopy(case)
                            c["ops"][k]["max_iter"] = m
                            yield c
                if o.get("verbose"):
                    c = copy.deepcopy(case)
                    c["ops"][k]["verbose"] = False
                    yield c
                if o.get("stdout") and o["stdout"].get("kind") != "memory":
                    c = copy.deepcopy(case)
                    c["ops"][k]["stdout"] = {"kind": "memory"}
                    yield c
        for c in self.extra_shrink_moves(case):
            yield c

    def extra_shrink_moves(self, case):
        return []


def finish_result(res, world, log, sig):
    res.digest = log.digest()
    res.signature = sig_hash(sig)
    res.sim_time = world.clock.now - world.clock.t0
    res.n_events = len([e for e in log.events if e[3] != "harness"])
    sc = {}
    for (op, seam), n in world.counters.items():
        sc[seam] = sc.get(seam, 0) + n
    res.seam_counts = sc
    for f in world.plan.fired:
        res.fired(f["seam"] + ":" + f["kind"])
    if res.violations:
        # the schedule-and-fault trace that goes into the replay file (last 400 seam events)
        res.events = [list(e) for e in log.events[-400:]]
    return res
