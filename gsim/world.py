"""The simulated environment: every seam of graphslam behind one object.

Seams (DESIGN.md section 1): S1/S2 file system (real CPython io stack over a
simulated raw device), S3 linear solver, S4 wall clock, S5 stdout, S6 logging,
S8 warnings registry.  ``World`` is a context manager: patches are installed on
entry and removed on exit.  ``World`` never draws random numbers: everything
it does is a pure function of (config, fault plan, code under test).
"""

import builtins
import errno
import io
import logging
import math
import os
import sys
import time as _real_time_module
import warnings

import numpy as np

from .core import EventLog

SIMFS = "/simfs/"

# Real functions, captured once at import (before any World is installed).
_REAL_OPEN = builtins.open
_REAL_IO_OPEN = io.open
_REAL_TIME = {name: getattr(_real_time_module, name) for name in ("time", "monotonic", "perf_counter", "time_ns")}


def real_time():
    """The real wall clock, for the runner's budget only (never inside execute)."""
    return _REAL_TIME["monotonic"]()


DEFAULT_PLATFORM = {"linesep": "\n", "encoding": "utf-8", "bufsize": 8192, "max_xfer": 4096}
DEFAULT_CONFIG = {
    "platform": DEFAULT_PLATFORM,
    "clock": {"kind": "steady", "start": 1.7e9, "salt": 1},
    "stdout": {"kind": "memory"},
    "logger": {"kind": "default"},
    "warnings": {"kind": "always"},
    "numpy_print": {"kind": "default"},
    "numpy_err": {"kind": "default"},
}

LATENCY = {"disk": 2e-5, "solver": 1e-3, "stdout": 1e-5}


class SimulatedInterrupt(KeyboardInterrupt):
    """Ctrl-C delivered by the simulator (a real KeyboardInterrupt is never swallowed by the harness)."""


class FaultPlan:
    """Faults addressed as (op_index, seam, event index within that op)."""

    def __init__(self, faults):
        self.by_key = {}
        for f in faults or []:
            self.by_key[(f["op_index"], f["seam"], f["event"])] = f
        self.fired = []  # list of fault dicts that actually fired
        self.sticky = {}  # (op_index, seam) -> fault

    def lookup(self, op_index, seam, event):
        return self.by_key.get((op_index, seam, event))


# --------------------------------------------------------------------------- #
# S4 clock
# --------------------------------------------------------------------------- #
class SimClock:
    def __init__(self, world, cfg):
        self.world = world
        self.kind = cfg.get("kind", "steady")
        self.now = 0.0 if self.kind == "epoch0" else float(cfg.get("start", 1.7e9))
        self.t0 = self.now
        self.lcg = (int(cfg.get("salt", 1)) * 2654435761 + 12345) & 0xFFFFFFFF
        self.reads = 0
        self.max_seen = self.now
        self.went_backwards = False
        self.equal_reads = 0
        self.last_read = None

    def _step(self):
        # deterministic pseudo-random increment in [1us, 10ms]; not the run PRNG
        self.lcg = (self.lcg * 1664525 + 1013904223) & 0xFFFFFFFF
        return 1e-6 + (self.lcg / 0xFFFFFFFF) * (1e-2 - 1e-6)

    def advance(self, dt):
        if self.kind != "frozen":
            self.now += dt

    def read(self):
        w = self.world
        idx = w.next_event("clock")
        f = w.plan.lookup(w.log.op_index, "clock", idx)
        outcome = "ok"
        if f is not None:
            if f["kind"] == "jump_fwd":
                self.now += 1e9
                outcome = "jump_fwd"
            elif f["kind"] == "jump_back":
                self.now -= 3600.0
                self.went_backwards = True
                outcome = "jump_back"
            w.fire(f)
        elif self.kind != "frozen":
            self.now += self._step()
        if self.last_read is not None and self.now == self.last_read:
            self.equal_reads += 1
        self.last_read = self.now
        self.reads += 1
        w.log.add(self.now, "clock", "read", None, outcome)
        return self.now


class _TimeShim:
    """Stands in for the ``time`` module inside graphslam.graph."""

    def __init__(self, clock):
        self._clock = clock

    def time(self):
        return self._clock.read()

    def monotonic(self):
        return self._clock.read()

    def perf_counter(self):
        return self._clock.read()

    def process_time(self):
        return self._clock.read()

    def time_ns(self):
        return int(self._clock.read() * 1e9)

    def monotonic_ns(self):
        return int(self._clock.read() * 1e9)

    def perf_counter_ns(self):
        return int(self._clock.read() * 1e9)

    def sleep(self, secs):
        self._clock.advance(float(secs))

    def __getattr__(self, name):
        return getattr(_real_time_module, name)


# --------------------------------------------------------------------------- #
# S5 stdout
# --------------------------------------------------------------------------- #
class SimStdout:
    encoding = "utf-8"
    errors = "strict"

    def __init__(self, world, cfg):
        self.world = world
        self.kind = cfg.get("kind", "memory")
        if self.kind in ("ascii", "cp1252"):
            self.encoding = self.kind
        self.chunks = []
        self.writes = 0
        self.closed = False

    def write(self, s):
        w = self.world
        idx = w.next_event("stdout")
        f = w.plan.lookup(w.log.op_index, "stdout", idx)
        if self.kind == "slow":
            w.clock.advance(0.25)
        else:
            w.clock.advance(LATENCY["stdout"])
        if self.kind in ("ascii", "cp1252"):
            # a console / log file whose encoding cannot represent everything (PYTHONIOENCODING=ascii, a cp1252 console)
            s.encode(self.kind)  # raises UnicodeEncodeError exactly like a real TextIOWrapper would
        if f is not None:
            w.fire(f)
            k = f["kind"]
            w.log.add(w.clock.now, "stdout", "write", len(s), k)
            if k == "broken_pipe":
                raise BrokenPipeError(errno.EPIPE, "Broken pipe")
            if k == "eio":
                raise OSError(errno.EIO, "Input/output error")
            if k == "closed":
                raise ValueError("I/O operation on closed file.")
        self.writes += 1
        self.chunks.append(s)
        w.log.add(w.clock.now, "stdout", "write", len(s), "ok")
        return len(s)

    def flush(self):
        return None

    def isatty(self):
        return False

    def writable(self):
        return True

    def getvalue(self):
        return "".join(self.chunks)


# --------------------------------------------------------------------------- #
# S1/S2 disk
# --------------------------------------------------------------------------- #
class SimRaw(io.RawIOBase):
    """The simulated raw device under the real Buffered*/TextIOWrapper stack."""

    def __init__(self, world, path, mode):
        super().__init__()
        self.world = world
        self.path = path
        self._mode = mode
        self._pos = 0
        disk = world.disk
        if mode == "r":
            if path not in disk.files:
                raise FileNotFoundError(errno.ENOENT, "No such file or directory", path)
        elif mode == "w":
            disk.files[path] = bytearray()
            disk.mtimes[path] = world.clock.now
        elif mode == "x":
            if path in disk.files:
                raise FileExistsError(errno.EEXIST, "File exists", path)
            disk.files[path] = bytearray()
        elif mode == "a":
            disk.files.setdefault(path, bytearray())
            self._pos = len(disk.files[path])
        else:  # pragma: no cover
            raise ValueError("unsupported mode %r" % mode)
        idx = world.next_event("disk")
        world.disk.actions.append((world.log.op_index, idx, "open:" + mode))
        world.log.add(world.clock.now, "disk", "open:" + mode, None, path)

    # -- capabilities
    def readable(self):
        return self._mode == "r"

    def writable(self):
        return self._mode in ("w", "a", "x")

    def seekable(self):
        return False

    @property
    def mode(self):
        return {"r": "rb", "w": "wb", "a": "ab", "x": "xb"}[self._mode]

    @property
    def name(self):
        return self.path

    def fileno(self):
        raise io.UnsupportedOperation("fileno")

    def isatty(self):
        return False

    # -- I/O
    def write(self, b):
        w = self.world
        if self.closed:
            raise ValueError("write to closed file")
        n = len(b)
        idx = w.next_event("disk")
        w.disk.actions.append((w.log.op_index, idx, "write"))
        w.clock.advance(LATENCY["disk"])
        f = w.plan.lookup(w.log.op_index, "disk", idx)
        sticky = w.plan.sticky.get((w.log.op_index, "disk"))
        if sticky is not None:
            f = sticky  # a full / failed device stays that way until the operation ends
        if f is not None and f["kind"] in ("enospc", "eio_write"):
            w.fire(f)
            if f.get("sticky"):
                w.plan.sticky[(w.log.op_index, "disk")] = f
            part = int(f.get("partial", 0))
            if part > 0 and n > 1:
                # a partial transfer before the error surfaces on the next call
                k = min(part, n - 1, w.disk.max_xfer)
                self._store(bytes(b[:k]))
                w.log.add(w.clock.now, "disk", "write", k, "partial-then-" + f["kind"])
                w.plan.sticky[(w.log.op_index, "disk")] = dict(f, partial=0, sticky=True)
                return k
            w.log.add(w.clock.now, "disk", "write", n, f["kind"])
            if f["kind"] == "enospc":
                raise OSError(errno.ENOSPC, "No space left on device")
            raise OSError(errno.EIO, "Input/output error")
        k = min(n, w.disk.max_xfer)
        outcome = "ok"
        if f is not None and f["kind"] == "short_write":
            w.fire(f)
            k = max(1, min(k, int(f.get("n", 1)))) if n > 0 else 0
            outcome = "short"
        elif f is not None and f["kind"] == "slow":
            w.fire(f)
            w.clock.advance(30.0)
            outcome = "slow"
        if k < n and outcome == "ok":
            outcome = "xfer-limited"
        self._store(bytes(b[:k]))
        w.log.add(w.clock.now, "disk", "write", k, outcome)
        return k

    def _store(self, data):
        buf = self.world.disk.files[self.path]
        if self._mode == "a":
            buf.extend(data)
        else:
            buf[self._pos : self._pos + len(data)] = data
        self._pos += len(data)
        self.world.disk.bytes_written += len(data)
        self.world.disk.mtimes[self.path] = self.world.clock.now

    def readinto(self, b):
        w = self.world
        if self.closed:
            raise ValueError("read of closed file")
        idx = w.next_event("disk")
        w.disk.actions.append((w.log.op_index, idx, "read"))
        w.clock.advance(LATENCY["disk"])
        f = w.plan.lookup(w.log.op_index, "disk", idx)
        if f is not None and f["kind"] == "eio_read":
            w.fire(f)
            w.log.add(w.clock.now, "disk", "read", len(b), "eio_read")
            raise OSError(errno.EIO, "Input/output error")
        data = w.disk.files[self.path]
        k = min(len(b), w.disk.max_xfer, len(data) - self._pos)
        outcome = "ok"
        if f is not None and f["kind"] == "short_read" and k > 1:
            w.fire(f)
            k = max(1, min(k, int(f.get("n", 1))))
            outcome = "short"
        elif f is not None and f["kind"] == "slow":
            w.fire(f)
            w.clock.advance(30.0)
            outcome = "slow"
        chunk = bytes(data[self._pos : self._pos + k])
        b[:k] = chunk
        # probes: did a transfer boundary fall inside a CRLF pair / a number?
        if k > 0 and self._pos + k < len(data):
            last = chunk[-1:]
            nxt = bytes(data[self._pos + k : self._pos + k + 1])
            if last == b"\r" and nxt == b"\n":
                w.disk.split_crlf += 1
            if last not in b" \r\n" and nxt not in b" \r\n":
                w.disk.split_token += 1
        self._pos += k
        w.disk.bytes_read += k
        w.log.add(w.clock.now, "disk", "read", k, outcome)
        return k

    def close(self):
        if self.closed:
            return
        w = self.world
        super().close()
        idx = w.next_event("disk")
        w.disk.actions.append((w.log.op_index, idx, "close"))
        f = w.plan.lookup(w.log.op_index, "disk", idx)
        if f is not None and f["kind"] == "eio_close" and self._mode != "r":
            w.fire(f)
            w.log.add(w.clock.now, "disk", "close", None, "eio_close")
            raise OSError(errno.EIO, "Input/output error")
        w.log.add(w.clock.now, "disk", "close", None, "ok")


class SimDisk:
    def __init__(self, world, platform):
        self.world = world
        self.files = {}
        self.mtimes = {}
        self.platform = dict(DEFAULT_PLATFORM)
        self.platform.update(platform or {})
        self.max_xfer = int(self.platform["max_xfer"])
        self.actions = []  # (op_index, event index, action)
        self.bytes_written = 0
        self.bytes_read = 0
        self.split_crlf = 0
        self.split_token = 0
        self.opens = 0

    def open(self, file, mode="r", buffering=-1, encoding=None, errors=None, newline=None, closefd=True, opener=None):
        path = os.fspath(file)
        if isinstance(path, bytes):
            path = path.decode()
        self.opens += 1
        m = set(mode)
        if "+" in m or "U" in m:
            raise ValueError("SimDisk: unsupported mode %r" % mode)
        binary = "b" in m
        kinds = [c for c in "rwax" if c in m]
        if len(kinds) != 1:
            if not kinds and (m <= set("tb")):
                kinds = ["r"]
            else:
                raise ValueError("invalid mode: %r" % mode)
        kind = kinds[0]
        raw = SimRaw(self.world, path, kind)
        bufsize = buffering if isinstance(buffering, int) and buffering > 1 else int(self.platform["bufsize"])
        if binary:
            if buffering == 0:
                return raw
            return io.BufferedReader(raw, bufsize) if kind == "r" else io.BufferedWriter(raw, bufsize)
        buffered = io.BufferedReader(raw, bufsize) if kind == "r" else io.BufferedWriter(raw, bufsize)
        enc = encoding if encoding is not None else self.platform["encoding"]
        nl = newline
        if newline is None and kind != "r" and self.platform["linesep"] != "\n":
            # emulate os.linesep == "\r\n": "\n" is written as "\r\n"
            nl = self.platform["linesep"]
        return io.TextIOWrapper(buffered, encoding=enc, errors=errors, newline=nl, line_buffering=(buffering == 1))

    # harness-side helpers (not seam events)
    def put(self, path, data):
        self.files[path] = bytearray(data)
        self.mtimes[path] = self.world.clock.now

    def get(self, path):
        return bytes(self.files[path])


# --------------------------------------------------------------------------- #
# S3 solver
# --------------------------------------------------------------------------- #
class SimSolver:
    def __init__(self, world, real_spsolve):
        self.world = world
        self.real = real_spsolve
        self.calls = 0
        self.last_result = None

    def __call__(self, A, b, *args, **kwargs):
        w = self.world
        idx = w.next_event("solver")
        self.calls += 1
        w.clock.advance(LATENCY["solver"])
        f = w.plan.lookup(w.log.op_index, "solver", idx)
        shape = [int(A.shape[0]), int(A.shape[1]), int(getattr(A, "nnz", 0))]
        kind = f["kind"] if f is not None else "pass"
        if f is not None:
            w.fire(f)
        if kind == "raise_memory":
            w.log.add(w.clock.now, "solver", "solve", shape, kind)
            raise MemoryError("simulated: out of memory in sparse LU")
        if kind == "raise_runtime":
            w.log.add(w.clock.now, "solver", "solve", shape, kind)
            raise RuntimeError("simulated: Factor is exactly singular")
        if kind == "raise_rankwarning":
            from scipy.sparse.linalg import MatrixRankWarning

            w.log.add(w.clock.now, "solver", "solve", shape, kind)
            raise MatrixRankWarning("Matrix is exactly singular")
        if kind == "nan_fill":
            from scipy.sparse.linalg import MatrixRankWarning

            warnings.warn("Matrix is exactly singular", MatrixRankWarning)
            x = np.full(np.shape(b), np.nan, dtype=np.float64)
            w.log.add(w.clock.now, "solver", "solve", shape, kind)
            return x
        if kind == "stall":
            w.clock.advance(float(f.get("seconds", 1e6)))
        try:
            x = self.real(A, b, *args, **kwargs)
        except Exception as e:
            # the real SciPy / SuperLU refused the system (e.g. "failed to factorize matrix" on NaN/inf input, or a
            # rank warning turned into an error): an outcome of the environment, not of the code under test
            w.natural_solver_raises += 1
            w.log.add(w.clock.now, "solver", "solve", shape, "natural-raise:" + type(e).__name__)
            raise
        if kind == "wild":
            x = np.array(x, dtype=np.float64)
            mode = f.get("mode", "scale")
            if mode == "scale":
                x = x * (10.0 ** float(f.get("exp10", 3)))
            else:
                vec = np.array([float(v) for v in f.get("vec", [])], dtype=np.float64)
                if len(vec):
                    reps = int(np.ceil(len(x) / len(vec)))
                    x = np.tile(vec, reps)[: len(x)]
            if not np.all(np.isfinite(x)):
                x = np.where(np.isfinite(x), x, 0.0)
        nanflag = bool(np.any(~np.isfinite(np.asarray(x))))
        w.log.add(w.clock.now, "solver", "solve", shape, kind + (":nonfinite" if nanflag else ""))
        if nanflag:
            w.natural_nonfinite_solves += 1
        return x


# --------------------------------------------------------------------------- #
# S6 logging
# --------------------------------------------------------------------------- #
class _Capture(logging.Handler):
    def __init__(self, world):
        super().__init__(level=logging.NOTSET)
        self.world = world
        self.records = []
        self.broken = []

    def emit(self, record):
        try:
            msg = record.getMessage()
        except Exception as e:
            # what every stdlib handler does when a record cannot be rendered: the message is lost (handleError)
            self.broken.append((record.name, record.levelno, repr(record.msg)[:120], type(e).__name__))
            self.world.log.add(self.world.clock.now, "log", record.name, record.levelno, "UNRENDERABLE:" + type(e).__name__)
            return
        self.records.append((record.name, record.levelno, msg))
        self.world.log.add(self.world.clock.now, "log", record.name, record.levelno, msg[:80])


class _RaisingHandler(logging.Handler):
    """A handler whose output stream is broken: like every stdlib handler it
    catches the failure inside emit() and reports it through handleError()."""

    def emit(self, record):
        try:
            raise OSError(errno.EPIPE, "simulated: log stream is gone")
        except Exception:
            self.handleError(record)

    def handleError(self, record):  # as with logging.raiseExceptions = False
        return None


# --------------------------------------------------------------------------- #
# World
# --------------------------------------------------------------------------- #
class World:
    def __init__(self, config=None, faults=None, log=None):
        cfg = {}
        for k, v in DEFAULT_CONFIG.items():
            cfg[k] = dict(v)
        for k, v in (config or {}).items():
            if isinstance(v, dict) and k in cfg:
                cfg[k].update(v)
            else:
                cfg[k] = v
        self.config = cfg
        self.log = log if log is not None else EventLog()
        self.plan = FaultPlan(faults)
        self.counters = {}  # (op_index, seam) -> events so far
        self.clock = SimClock(self, cfg["clock"])
        self.disk = SimDisk(self, cfg["platform"])
        self.stdout = None
        self.solver = None
        self.capture = _Capture(self)
        self.warnings = []
        self.natural_nonfinite_solves = 0
        self.natural_solver_raises = 0
        self._saved = {}
        self._installed = False

    # -- event bookkeeping
    def next_event(self, seam):
        key = (self.log.op_index, seam)
        idx = self.counters.get(key, 0)
        self.counters[key] = idx + 1
        return idx

    def fire(self, f):
        self.plan.fired.append(f)

    def begin_op(self, i):
        self.log.op_index = i

    def benign(self):
        """Context manager: seam events inside it are counted in a namespace no fault plan addresses."""
        world = self

        class _Benign:
            def __enter__(self_inner):
                self_inner.saved = world.log.op_index
                world.log.op_index = -7000000 - abs(self_inner.saved)
                return world

            def __exit__(self_inner, *exc):
                world.log.op_index = self_inner.saved
                return False

        return _Benign()

    def op_counts(self):
        """{op_index: {seam: n events}} -- what the dry run hands to the fault planner."""
        out = {}
        for (op, seam), n in self.counters.items():
            out.setdefault(op, {})[seam] = n
        return out

    def set_stdout(self, cfg):
        """Swap the stdout personality between ops (each call its own sink)."""
        self.stdout = SimStdout(self, cfg)
        if cfg.get("kind") == "none":
            sys.stdout = None
        else:
            sys.stdout = self.stdout

    # -- install / uninstall
    def __enter__(self):
        import graphslam.graph as gg
        import scipy.sparse.linalg as ssl

        self._gg = gg
        self._ssl = ssl
        s = self._saved
        # S3
        s["gg_spsolve"] = gg.__dict__.get("spsolve")
        s["ssl_spsolve"] = ssl.spsolve
        real_spsolve = _REAL_SPSOLVE[0] or ssl.spsolve
        self.solver = SimSolver(self, real_spsolve)
        if "spsolve" in gg.__dict__:
            gg.spsolve = self.solver
        ssl.spsolve = self.solver
        # S4
        s["gg_time"] = gg.__dict__.get("time")
        shim = _TimeShim(self.clock)
        if "time" in gg.__dict__:
            gg.time = shim
        for name in ("time", "monotonic", "perf_counter"):
            setattr(_real_time_module, name, shim.time)
        _real_time_module.time_ns = shim.time_ns
        # S5
        s["stdout"] = sys.stdout
        self.set_stdout(self.config["stdout"])
        # S1/S2
        s["gg_open_present"] = "open" in gg.__dict__
        s["gg_open"] = gg.__dict__.get("open")
        gg.open = self.disk.open
        s["builtins_open"] = builtins.open
        s["io_open"] = io.open

        disk_open = self.disk.open

        def dispatch_open(file, *args, **kwargs):
            try:
                p = os.fspath(file)
            except TypeError:
                p = None
            if isinstance(p, bytes):
                try:
                    p = p.decode()
                except Exception:  # pragma: no cover
                    p = None
            if isinstance(p, str) and p.startswith(SIMFS):
                return disk_open(file, *args, **kwargs)
            return _REAL_OPEN(file, *args, **kwargs)

        builtins.open = dispatch_open
        io.open = dispatch_open
        # S6
        lg = logging.getLogger("graphslam")
        s["lg_level"] = lg.level
        s["lg_prop"] = lg.propagate
        s["lg_disabled"] = lg.disabled
        s["lg_handlers"] = list(lg.handlers)
        lgg = logging.getLogger("graphslam.graph")
        s["lgg_level"] = lgg.level
        s["lgg_disabled"] = lgg.disabled
        lg.handlers = [self.capture]
        lg.propagate = False
        kind = self.config["logger"].get("kind", "default")
        if kind == "error_level":
            lgg.setLevel(logging.ERROR)
        elif kind == "debug_level":
            lg.setLevel(logging.DEBUG)
        elif kind == "disabled":
            lgg.disabled = True
        elif kind == "raising_handler":
            lg.handlers = [_RaisingHandler(), self.capture]
        # S8
        self._wctx = warnings.catch_warnings(record=True)
        self.warnings = self._wctx.__enter__()
        warnings.simplefilter("always")
        try:
            from scipy.sparse import SparseEfficiencyWarning

            warnings.filterwarnings("ignore", category=SparseEfficiencyWarning)
        except Exception:  # pragma: no cover
            pass
        if self.config.get("warnings", {}).get("kind") == "error_all":
            # the host runs with -W error (a test runner with filterwarnings = error): every warning is an exception
            warnings.simplefilter("error")
        if self.config.get("warnings", {}).get("kind") == "error_sparse":
            # the host (e.g. a test runner with filterwarnings=error) turned SciPy's efficiency warnings into errors
            # *after* graphslam was imported, so its import-time "ignore" filter no longer wins
            from scipy.sparse import SparseEfficiencyWarning

            warnings.filterwarnings("error", category=SparseEfficiencyWarning)
        if self.config.get("warnings", {}).get("kind") == "error":
            # the process runs with -W error::MatrixRankWarning: a singular factor raises instead of NaN-filling
            from scipy.sparse.linalg import MatrixRankWarning

            warnings.filterwarnings("error", category=MatrixRankWarning)
        # S8 (continued): process-global numpy print options, as a host program may have set them
        self._np_print = np.get_printoptions()
        kind = self.config.get("numpy_print", {}).get("kind", "default")
        if kind == "precision3":
            np.set_printoptions(precision=3, suppress=True)
        elif kind == "formatter":
            np.set_printoptions(formatter={"float": "{: 0.3f}".format, "float_kind": "{: 0.3f}".format})
        elif kind == "threshold":
            np.set_printoptions(threshold=3, edgeitems=1, linewidth=40)
        elif kind == "legacy113":
            np.set_printoptions(legacy="1.13")
        # S7: user-code events (custom edges call useredges.HOOK on entry to calc_error)
        from . import useredges as _ue

        def _hook():
            idx = self.next_event("usercode")
            f = self.plan.lookup(self.log.op_index, "usercode", idx)
            if f is not None and f["kind"] == "interrupt":
                self.fire(f)
                self.log.add(self.clock.now, "usercode", "calc_error", None, "interrupt")
                raise SimulatedInterrupt("simulated: KeyboardInterrupt while user edge code runs")

        self._ue = _ue
        _ue.HOOK[0] = _hook
        # S8 (continued): numpy floating-point error state, as a host program may have set it
        self._np_err = np.geterr()
        ek = self.config.get("numpy_err", {}).get("kind", "default")
        if ek == "ignore":
            np.seterr(all="ignore")
        elif ek == "warn":
            np.seterr(all="warn")
        # S1/S2 (continued): metadata of simulated files (os.stat and friends), with the platform's timestamp granularity
        self._os_saved = {"stat": os.stat, "exists": os.path.exists, "isfile": os.path.isfile, "getsize": os.path.getsize,
                          "getmtime": os.path.getmtime}
        disk = self.disk
        real_stat = os.stat

        def _is_sim(path):
            try:
                p = os.fspath(path)
            except TypeError:
                return None
            if isinstance(p, bytes):
                p = p.decode(errors="replace")
            return p if isinstance(p, str) and p.startswith(SIMFS) else None

        def sim_stat(path, *args, **kwargs):
            p = _is_sim(path)
            if p is None:
                return real_stat(path, *args, **kwargs)
            if p not in disk.files:
                raise FileNotFoundError(errno.ENOENT, "No such file or directory", p)
            gran = float(disk.platform.get("mtime_granularity", 1e-7))
            mt = math.floor(disk.mtimes.get(p, self.clock.t0) / gran) * gran
            ns = int(round(mt * 1e9))
            ino = sum(ord(c) for c in p) & 0xFFFF  # stable across interpreters (no hash())
            return os.stat_result((0o100644, ino, 1, 1, 0, 0, len(disk.files[p]), int(mt), int(mt), int(mt), mt, mt, mt, ns, ns, ns))

        os.stat = sim_stat
        os.path.exists = lambda path: (_is_sim(path) in disk.files) if _is_sim(path) is not None else self._os_saved["exists"](path)
        os.path.isfile = lambda path: (_is_sim(path) in disk.files) if _is_sim(path) is not None else self._os_saved["isfile"](path)
        os.path.getsize = lambda path: len(disk.files[_is_sim(path)]) if _is_sim(path) is not None else self._os_saved["getsize"](path)
        os.path.getmtime = lambda path: sim_stat(path).st_mtime if _is_sim(path) is not None else self._os_saved["getmtime"](path)
        self._installed = True
        return self

    def __exit__(self, *exc):
        gg = self._gg
        ssl = self._ssl
        s = self._saved
        self._ue.HOOK[0] = None
        os.stat = self._os_saved["stat"]
        os.path.exists = self._os_saved["exists"]
        os.path.isfile = self._os_saved["isfile"]
        os.path.getsize = self._os_saved["getsize"]
        os.path.getmtime = self._os_saved["getmtime"]
        np.seterr(**self._np_err)
        np.set_printoptions(**self._np_print)
        self._wctx.__exit__(None, None, None)
        lg = logging.getLogger("graphslam")
        lgg = logging.getLogger("graphslam.graph")
        lg.handlers = s["lg_handlers"]
        lg.setLevel(s["lg_level"])
        lg.propagate = s["lg_prop"]
        lg.disabled = s["lg_disabled"]
        lgg.setLevel(s["lgg_level"])
        lgg.disabled = s["lgg_disabled"]
        builtins.open = s["builtins_open"]
        io.open = s["io_open"]
        if s["gg_open_present"]:
            gg.open = s["gg_open"]
        else:
            try:
                del gg.open
            except AttributeError:  # pragma: no cover
                pass
        sys.stdout = s["stdout"]
        for name, fn in _REAL_TIME.items():
            setattr(_real_time_module, name, fn)
        if s["gg_time"] is not None:
            gg.time = s["gg_time"]
        ssl.spsolve = s["ssl_spsolve"]
        if s["gg_spsolve"] is not None:
            gg.spsolve = s["gg_spsolve"]
        self._installed = False
        return False

    # -- summaries
    def warning_classes(self):
        out = {}
        for w in self.warnings:
            n = w.category.__name__
            out[n] = out.get(n, 0) + 1
        return out


_REAL_SPSOLVE = [None]


def capture_real_solver():
    """Remember SciPy's real spsolve once, before any World patches it."""
    if _REAL_SPSOLVE[0] is None:
        import scipy.sparse.linalg as ssl

        _REAL_SPSOLVE[0] = ssl.spsolve


capture_real_solver()
