"""C11 -- manifold invariants over long operation histories.

Engine ``simchain``: a pool of SE(2)/SE(3) poses driven through seeded chains
of operations (incl. round trips through the simulated disk and optimizer runs
whose solver seam returns wild finite steps), against an exact-rational angle
model and an accumulated-rounding norm budget (DESIGN.md section 4, C11).
"""

import copy
import math
from fractions import Fraction

import numpy as np

from graphslam.edge.edge_odometry import EdgeOdometry
from graphslam.graph import Graph
from graphslam.pose.se2 import PoseSE2
from graphslam.pose.se3 import PoseSE3
from graphslam.vertex import Vertex

from . import graphs, simio
from .c14 import PI_F
from .core import EventLog, Result, fx, fxl, xf, xfl
from .simopt import OptEngineBase, draw_config, finish_result
from .world import World

EPS = float(np.finfo(float).eps)
TWO_PI_F = 2 * PI_F
POOL = 6
PATH = "/simfs/pose.g2o"


def wrap_exact(fr):
    """Fraction -> representative in [-pi, pi) (exact up to the 60-digit rational pi)."""
    k = (fr + PI_F) // TWO_PI_F
    return fr - k * TWO_PI_F


def qnorm(p):
    return math.sqrt(math.fsum(float(v) * float(v) for v in p[3:7]))


ANGLE_SPECIALS = [0.0, -0.0, 1e-300, -1e-300, math.pi, -math.pi, 2 * math.pi, -2 * math.pi, math.pi / 2, 3 * math.pi, 1e6, -1e6, 999999.999]


def rand_angle(rng):
    r = rng.random()
    if r < 0.3:
        return rng.uniform(-math.pi, math.pi)
    if r < 0.5:
        return rng.uniform(-1e6, 1e6)
    if r < 0.6:
        return rng.uniform(-50, 50)
    if r < 0.8:
        base = rng.choice([math.pi, -math.pi, 2 * math.pi * rng.randint(-1000, 1000), math.pi * (2 * rng.randint(-1000, 1000) + 1)])
        x = base
        for _ in range(rng.randint(0, 3)):
            x = math.nextafter(x, rng.choice([-math.inf, math.inf]))
        return x
    return rng.choice(ANGLE_SPECIALS)


def rand_unit3(rng):
    while True:
        v = [rng.gauss(0, 1) for _ in range(3)]
        n = math.sqrt(sum(x * x for x in v))
        if n > 1e-3:
            return [x / n for x in v]


def rand_quat(rng):
    r = rng.random()
    if r < 0.6:
        return simio.unit_quat(rng)
    if r < 0.7:
        q = simio.unit_quat(rng, w_negative=True)
        return q
    if r < 0.72:
        # scalar part a hair below zero (a rotation by almost exactly pi)
        ax = rand_unit3(rng)
        w = -10.0 ** rng.uniform(-16, -11)
        s = math.sqrt(1.0 - w * w)
        return [ax[0] * s, ax[1] * s, ax[2] * s, w]
    if r < 0.8:
        # tiny vector part
        v = [rng.gauss(0, 1e-9) for _ in range(3)]
        w = math.sqrt(max(0.0, 1.0 - sum(x * x for x in v)))
        return v + [w * rng.choice([1, -1])]
    axis = rng.randrange(3)
    q = [0.0, 0.0, 0.0, 0.0]
    if r < 0.9:
        q[axis] = rng.choice([1.0, -1.0])  # 180 degrees about an axis, w == 0
    else:
        q[3] = rng.choice([1.0, -1.0])
    return q


ROT_NORMS = [0.0, 1e-9, 0.3, 0.3, 0.9, math.nextafter(1.0, 0.0), 1.0, math.nextafter(1.0, 2.0), 1.5, 1e3]


def rand_delta3(rng):
    n = rng.choice(ROT_NORMS)
    ax = [rng.gauss(0, 1) for _ in range(3)]
    an = math.sqrt(sum(x * x for x in ax)) or 1.0
    if rng.random() < 0.3:
        ax = [0.0, 0.0, 0.0]
        ax[rng.randrange(3)] = rng.choice([1.0, -1.0])
        an = 1.0
    return [rng.uniform(-2, 2) for _ in range(3)] + [x / an * n for x in ax]


SE2_OPS = ["identity", "scribble_views", "from_file_text", "construct", "compose", "compose", "ominus", "ominus", "inverse", "boxplus", "boxplus", "iadd", "copy", "matrix", "matrix_product", "matrix_product", "via_disk", "optimize_chain"]
SE3_OPS = ["identity", "scribble_views", "construct", "compose", "compose", "compose", "ominus", "ominus", "inverse", "inverse", "boxplus", "boxplus", "iadd", "copy", "normalize", "via_disk",
           "optimize_chain", "construct_nonunit", "normalize_inplace", "normalize_inplace"]


def bmul(*bs, extra=0.0):
    """Budget of a product of norms; None (no claim: some operand is not a unit quaternion) is contagious."""
    out = 1.0 + extra
    for b in bs:
        if b is None:
            return None
        out *= 1.0 + b
    return out - 1.0


class C11(OptEngineBase):
    PROPERTY = "C11"
    SWEEP_EVERY = {}
    ENGINE_NAME = "simchain"
    RUN_WALL_CAP_S = 300
    TIERS = {
        "quick": {"runs": 3000, "budget_s": 75, "chunk": 16},
        "thorough": {"runs": 30000, "budget_s": 900, "chunk": 8},
    }
    RULE = (
        "Each run = one seeded history over two pools of 6 SE(2) and 6 SE(3) poses: 50..300 ops (quick) or up to 10^4 ops (thorough "
        "long-chain quota: every 40th run) drawn from construct (angles U(+-1e6), k*2pi +- j ulp, +-pi +- j ulp, 1e-300, -0.0; unit "
        "quaternions incl. w<0, w=0, tiny vector part), compose, ominus, inverse, boxplus (rotation-step norm in {0,1e-9,0.3,0.9,1-ulp,1,"
        "1+ulp,1.5,1e3}), +=, copy, SE(2) matrix round trip, normalize, via_disk (vertex / parameter / measurement line through the "
        "simulated device and back) and optimize_chain (a 3..6-vertex graph around pool poses, 1..50 iterations, solver seam in pass / "
        "stall / wild mode: finite steps scaled by 10^k or replaced by a seeded vector of norm <= 1e3). After every op: SE(2) results in "
        "[-pi, pi] and congruent to the exact rational angle within the accumulated rounding bound; SE(3) results unit within the "
        "accumulated budget; normalize keeps the rotation, unit norm, w >= 0. Non-trivial = >=20 checked results of both kinds; "
        "distinct = distinct signature (op-kind histogram bucket, solver modes, platform, chain-length bucket) -- long chains are "
        "additionally counted by total ops."
    )
    ASSUMPTIONS = [
        "pi is a 60-digit rational; floats are exact dyadic rationals, so the reference angle arithmetic is exact",
        "single-operation bound 8 eps (|operands| + 2 pi); quaternion budget +8 eps per product, +12 eps per boxplus/iteration, reset to 4 eps by normalize",
        "NaN/inf steps are not injected (a NaN pose is C06's outcome class); an optimize_chain whose solver result or positions became non-finite is not judged",
    ]
    PROBES = [
        "angle_eq_pi_returned", "angle_near_minus_pi", "big_angle", "boxplus_norm_gt1_branch", "boxplus_norm_eq1", "w_negative", "w_zero",
        "wild_step_applied", "chain_ge_1e4", "via_disk", "optimize_se2", "optimize_se3", "optimize_nonfinite_skipped", "normalize_checked",
        "chain_ge_1000", "auto_renormalized", "nonunit_constructed", "normalize_inplace", "unclaimed_nonunit_operand", "matrix_product", "matrix_inverse_product", "angle_given_as_float32", "identity_constructed", "identity_object_as_vertex_pose", "increment_buffer_reused", "operand_type_refused", "views_scribbled", "pose_from_file_text", "quaternion_edited_in_place_before_normalize",
    ]

    def sample_view(self, case):
        c = copy.deepcopy(case)
        if len(c["ops"]) > 40:
            n = len(c["ops"])
            c["ops"] = c["ops"][:40] + [{"op": "...", "truncated_ops": n - 40}]
        return c

    # ------------------------------------------------------------------ generate
    def generate(self, rng, tier, index):
        config = draw_config(rng)
        if tier == "thorough" and index % 40 == 7:
            n_ops = 10000
        elif tier == "thorough" and index % 10 == 3:
            n_ops = rng.randint(1000, 3000)
        elif tier == "quick" and index % 500 == 7:
            n_ops = 10000
        else:
            n_ops = rng.randint(50, 300)
        w = {"se2": [], "se3": []}
        for _ in range(POOL):
            w["se2"].append(fxl([rng.uniform(-10, 10), rng.uniform(-10, 10), rand_angle(rng)]))
            w["se3"].append(fxl([rng.uniform(-10, 10) for _ in range(3)] + rand_quat(rng)))
        ops = []
        faults = []
        heavy = 0
        for k in range(n_ops):
            t = "SE2" if rng.random() < 0.5 else "SE3"
            op = rng.choice(SE2_OPS if t == "SE2" else SE3_OPS)
            if op in ("optimize_chain", "via_disk"):
                # keep the expensive ops to a few percent of a chain
                if rng.random() < 0.8 or (op == "optimize_chain" and heavy >= 40):
                    op = "compose"
            o = {"op": op, "t": t, "a": rng.randrange(POOL), "b": rng.randrange(POOL), "dst": rng.randrange(POOL)}
            if op == "from_file_text":
                o["tag"] = rng.choice(["VERTEX_SE2", "EDGE_SE2", "PARAMS_SE2OFFSET"])
                o["v"] = fxl([rng.uniform(-10, 10), rng.uniform(-10, 10), rand_angle(rng)])
            if op == "construct" and t == "SE2" and rng.random() < 0.3:
                o["angle_type"] = rng.choice(["float32", "float32", "np_float64", "int"])
            if op == "construct_nonunit":
                q = rand_quat(rng)
                sc = rng.choice([0.5, 1.7, 1.0 + 1e-6, 10.0, 1e-3])
                o["v"] = fxl([rng.uniform(-10, 10) for _ in range(3)] + [x * sc for x in q])
            elif op == "construct":
                o["v"] = fxl([rng.uniform(-10, 10), rng.uniform(-10, 10), rand_angle(rng)] if t == "SE2" else [rng.uniform(-10, 10) for _ in range(3)] + rand_quat(rng))
            elif op in ("boxplus", "iadd"):
                if t == "SE2":
                    o["d"] = fxl([rng.uniform(-2, 2), rng.uniform(-2, 2), rng.choice([rand_angle(rng), rng.uniform(-1, 1), 0.0])])
                else:
                    o["d"] = fxl(rand_delta3(rng))
                if op == "iadd" and rng.random() < 0.5:
                    o["with_pose"] = True
                # how the increment is handed over: a fresh array, the caller's reused buffer (refilled in place),
                # or a plain list / tuple (the library may refuse those; it must not produce an invalid pose)
                o["dkind"] = rng.choice(["fresh", "fresh", "buffer", "buffer", "list", "tuple"])
            elif op == "via_disk":
                o["as"] = rng.choice(["vertex", "vertex", "param", "measurement"])
            elif op == "optimize_chain":
                heavy += 1
                n = rng.randint(3, 6)
                o["slots"] = [rng.randrange(POOL) for _ in range(n)]
                o["iters"] = rng.choice([1, 2, 3, 5, 10, 20, 50]) if heavy <= 6 else rng.choice([1, 2, 3])
                o["noise"] = rng.choice([0.0, 0.01, 0.3])
                o["identity_vertex"] = rng.random() < 0.35
                mode = rng.choice(["pass", "stall", "wild", "wild"])
                o["solver"] = mode
                if mode != "pass":
                    for ev in sorted(rng.sample(range(o["iters"]), min(o["iters"], rng.randint(1, 3)))):
                        f = {"op_index": k, "seam": "solver", "event": ev, "kind": mode, "of": o["iters"]}
                        if mode == "wild":
                            if rng.random() < 0.5:
                                f["mode"] = "scale"
                                f["exp10"] = rng.choice([-3, 1, 2, 3, 6])
                            else:
                                f["mode"] = "vec"
                                vec = [rng.gauss(0, 1) for _ in range(12)]
                                nv = math.sqrt(sum(x * x for x in vec)) or 1.0
                                s = 10.0 ** rng.uniform(-3, 3) / nv
                                f["vec"] = [x * s for x in vec]
                        else:
                            f["seconds"] = 3600.0
                        faults.append(f)
            ops.append(o)
        meta = {"n_ops": n_ops}
        return {"config": config, "workload": w, "meta": meta, "ops": ops, "faults": faults}

    # ------------------------------------------------------------------ execute
    def execute(self, case, dry=False):
        res = Result()
        log = EventLog()
        ops = case["ops"]
        hist = {}
        modes = set()
        checked2 = checked3 = 0
        with World(case.get("config"), case.get("faults"), log) as w:
            w.set_stdout({"kind": "memory"})
            pool2, pool3 = [], []
            # model: SE2 -> [E exact Fraction, B bound]; SE3 -> beta
            m2, m3 = [], []
            for v in case["workload"]["se2"]:
                x, y, th = xfl(v)
                p = PoseSE2([x, y], th)
                pool2.append(p)
                m2.append([Fraction(th), 8 * EPS * (abs(th) + 2 * math.pi)])
            for v in case["workload"]["se3"]:
                vals = xfl(v)
                pool3.append(PoseSE3(vals[:3], vals[3:]))
                m3.append(4 * EPS)

            def V(i, cls, msg):
                res.violate("C11:" + cls, "op %d %s: %s" % (i, {k: v for k, v in ops[i].items() if k not in ("v", "d", "slots")}, msg))

            def check2(i, r, exact_single, tol_single, E, B, what):
                """r: PoseSE2 result; exact_single: Fraction of the exact angle of this one operation."""
                nonlocal checked2
                checked2 += 1
                res.n_checks += 1
                th = float(r[2])
                if not math.isfinite(th) or not (-math.pi <= th <= math.pi):
                    V(i, "angle-range", "%s returned angle %r outside [-pi, pi]" % (what, th))
                    return False
                if th == math.pi:
                    res.probe("angle_eq_pi_returned")
                elif th < -math.pi + 1e-9:
                    res.probe("angle_near_minus_pi")
                if exact_single is not None:
                    d = abs(wrap_exact(Fraction(th) - exact_single))
                    if d > tol_single:
                        V(i, "angle-congruence", "%s returned angle %r, the exact angle is %.17g (mod 2 pi); off by %.3g > bound %.3g"
                          % (what, th, float(wrap_exact(exact_single)), float(d), tol_single))
                        return False
                if E is not None:
                    d = abs(wrap_exact(Fraction(th) - E))
                    if d > B:
                        V(i, "angle-drift", "%s: stored angle %r is off the exact chain angle by %.3g > accumulated bound %.3g" % (what, th, float(d), B))
                        return False
                return True

            def check3(i, r, beta, what, ref_norm=None, rel=0.0):
                """beta: accumulated budget; ref_norm/rel: sharp single-operation check |norm/ref_norm - 1| <= rel."""
                nonlocal checked3
                if beta is None:
                    res.probe("unclaimed_nonunit_operand")
                    return True
                checked3 += 1
                res.n_checks += 1
                n = qnorm(r)
                if ref_norm is not None and not (abs(n / ref_norm - 1.0) <= rel):
                    V(i, "quat-norm-step", "%s returned quaternion %s with norm %r; the operands' norms give %r: relative deviation %.3g > %.3g"
                      % (what, [float(v) for v in r[3:7]], n, ref_norm, abs(n / ref_norm - 1.0), rel))
                    return False
                if not (abs(n - 1.0) <= beta):
                    V(i, "quat-norm", "%s returned quaternion %s with norm %r: |norm-1| = %.3g > rounding budget %.3g"
                      % (what, [float(v) for v in r[3:7]], n, abs(n - 1.0), beta))
                    return False
                if r[6] < 0:
                    res.probe("w_negative")
                elif r[6] == 0:
                    res.probe("w_zero")
                return True

            buf2 = np.zeros(3, dtype=np.float64)  # the caller's reused increment buffers
            buf3 = np.zeros(6, dtype=np.float64)

            last_operand = [None, None]

            def operand(dvals, dkind, buf):
                out = _operand(dvals, dkind, buf)
                last_operand[0] = out
                last_operand[1] = np.array(out, dtype=np.float64, copy=True).tobytes()
                return out

            def operand_untouched():
                return last_operand[0] is None or np.array(last_operand[0], dtype=np.float64).tobytes() == last_operand[1]

            def _operand(dvals, dkind, buf):
                if dkind == "buffer":
                    buf[:] = dvals
                    return buf
                if dkind == "list":
                    return [float(v) for v in dvals]
                if dkind == "tuple":
                    return tuple(float(v) for v in dvals)
                return np.array(dvals, dtype=np.float64)

            n_done = 0
            for i, op in enumerate(ops):
                w.begin_op(i)
                kind = op["op"]
                t = op["t"]
                a, b, dst = op["a"], op["b"], op["dst"]
                hist[kind] = hist.get(kind, 0) + 1
                n_done += 1
                if t == "SE2":
                    pa, pb = pool2[a], pool2[b]
                    ta, tb = float(pa[2]), float(pb[2])
                    Ea, Ba = m2[a]
                    Eb, Bb = m2[b]
                    r = None
                    if kind == "scribble_views":
                        # the caller reads the pose through its accessors and edits what it got back
                        keep = np.array(pa, copy=True).tobytes()
                        for name in ("position", "orientation", "to_array", "to_compact"):
                            val = getattr(pa, name)
                            val = val() if callable(val) else val
                            if isinstance(val, np.ndarray) and val.ndim and val.flags.writeable:
                                val *= 2.0
                                val += 1.0
                        res.probe("views_scribbled")
                        res.n_checks += 1
                        if np.array(pa).tobytes() != keep:
                            V(i, "accessor-is-live-view", "editing what position/orientation/to_array/to_compact returned changed the pose to %s" % np.array(pa).tolist())
                            break
                        continue
                    if kind == "from_file_text":
                        x, y, th = xfl(op["v"])
                        tag = op.get("tag", "VERTEX_SE2")
                        if tag == "VERTEX_SE2":
                            text = "VERTEX_SE2 5 %r %r %r\n" % (x, y, th)
                        elif tag == "PARAMS_SE2OFFSET":
                            text = "PARAMS_SE2OFFSET 3 %r %r %r\nVERTEX_SE2 5 0 0 0\n" % (x, y, th)
                        else:
                            text = "VERTEX_SE2 1 0 0 0\nVERTEX_SE2 2 0 0 0\nEDGE_SE2 1 2 %r %r %r 1 0 0 1 0 1\n" % (x, y, th)
                        w.disk.put(PATH, text.encode("ascii"))
                        g2 = Graph.from_g2o(PATH)
                        if tag == "VERTEX_SE2":
                            r = g2._vertices[0].pose
                        elif tag == "PARAMS_SE2OFFSET":
                            r = list(g2._g2o_params.values())[0].value
                        else:
                            r = g2._edges[0].estimate
                        res.probe("pose_from_file_text")
                        if abs(th) > 1e3:
                            res.probe("big_angle")
                        tol = 8 * EPS * (abs(th) + 2 * math.pi)
                        ok = check2(i, r, Fraction(th), tol, None, None, "%s line with angle %r" % (tag, th))
                        E, B = Fraction(th), tol
                    elif kind == "identity":
                        r = PoseSE2.identity()
                        res.probe("identity_constructed")
                        res.n_checks += 1
                        if np.array(r).tobytes() != np.zeros(3).tobytes():
                            V(i, "identity", "PoseSE2.identity() returned %s" % np.array(r).tolist())
                            break
                        ok = True
                        E, B = Fraction(0), 8 * EPS * 2 * math.pi
                    elif kind == "construct":
                        x, y, th = xfl(op["v"])
                        if abs(th) > 1e3:
                            res.probe("big_angle")
                        typ = op.get("angle_type")
                        if typ == "float32":
                            th32 = np.float32(th)
                            th = float(th32)  # the exact value of the single-precision number handed in
                            res.probe("angle_given_as_float32")
                            r = PoseSE2([x, y], th32)
                        elif typ == "np_float64":
                            r = PoseSE2(np.array([x, y]), np.float64(th))
                        elif typ == "int":
                            th = float(int(th) % 1000)
                            r = PoseSE2([x, y], int(th))
                        else:
                            r = PoseSE2([x, y], th)
                        tol = 8 * EPS * (abs(th) + 2 * math.pi)
                        ok = check2(i, r, Fraction(th), tol, None, None, "PoseSE2(%r)" % th)
                        E, B = Fraction(th), tol
                    elif kind in ("compose", "ominus"):
                        sgn = 1 if kind == "compose" else -1
                        r = (pa + pb) if sgn == 1 else (pa - pb)
                        tol = 8 * EPS * (abs(ta) + abs(tb) + 2 * math.pi)
                        ok = check2(i, r, Fraction(ta) + sgn * Fraction(tb), tol, Ea + sgn * Eb, Ba + Bb + tol, "p %s q" % ("+" if sgn == 1 else "-"))
                        E, B = Ea + sgn * Eb, Ba + Bb + tol
                    elif kind == "inverse":
                        r = pa.inverse
                        tol = 8 * EPS * (abs(ta) + 2 * math.pi)
                        ok = check2(i, r, -Fraction(ta), tol, -Ea, Ba + tol, "p.inverse")
                        E, B = -Ea, Ba + tol
                    elif kind in ("boxplus", "iadd"):
                        d = xfl(op["d"])
                        if abs(d[2]) > 1e3:
                            res.probe("big_angle")
                        dkind = op.get("dkind", "fresh")
                        keep = np.array(pa, copy=True)
                        try:
                            if kind == "boxplus":
                                r = pa + operand(d, dkind, buf2)
                            else:
                                r = pa
                                if op.get("with_pose"):
                                    r += PoseSE2(d[:2], d[2])
                                    d = [d[0], d[1], float(PoseSE2(d[:2], d[2])[2])]
                                else:
                                    r += operand(d, dkind, buf2)
                        except (NotImplementedError, TypeError):
                            if dkind in ("list", "tuple"):
                                res.probe("operand_type_refused")
                                if keep.tobytes() != np.array(pool2[a]).tobytes():
                                    V(i, "iadd-mutated-operand", "a refused p += d still changed the operand")
                                    break
                                continue
                            raise
                        if dkind == "buffer":
                            res.probe("increment_buffer_reused")
                        if not operand_untouched():
                            V(i, "increment-mutated", "p [+] d changed the caller's increment array")
                            break
                        if keep.tobytes() != np.array(pool2[a]).tobytes():
                            V(i, "iadd-mutated-operand", "p + d / p += d changed the operand in place")
                            break
                        if not isinstance(r, PoseSE2):
                            V(i, "result-type", "p [+] d returned a %s, not a PoseSE2" % type(r).__name__)
                            break
                        tol = 8 * EPS * (abs(ta) + abs(d[2]) + 2 * math.pi)
                        ok = check2(i, r, Fraction(ta) + Fraction(d[2]), tol, Ea + Fraction(d[2]), Ba + tol, "p [+] d")
                        E, B = Ea + Fraction(d[2]), Ba + tol
                    elif kind == "copy":
                        r = pa.copy()
                        tol = 8 * EPS * (abs(ta) + 2 * math.pi)
                        ok = check2(i, r, Fraction(ta), tol, Ea, Ba + tol, "p.copy()")
                        E, B = Ea, Ba + tol
                    elif kind == "matrix":
                        r = PoseSE2.from_matrix(pa.to_matrix())
                        tol = 16 * EPS * (abs(ta) + 2 * math.pi)
                        ok = check2(i, r, Fraction(ta), tol, Ea, Ba + tol, "from_matrix(to_matrix())")
                        E, B = Ea, Ba + tol
                    elif kind == "matrix_product":
                        # the homogeneous matrices are multiplied by the user (round-off of inconsistent sign in the
                        # entries) and converted back: exact angle = sum (or difference, through the inverse pose)
                        variant = (op["a"] + 2 * op["b"] + op["dst"]) % 4
                        if variant >= 2:
                            # relative transform through an explicit matrix inverse (LAPACK): the rotation block of the
                            # result carries round-off of inconsistent sign; variant 3 makes the headings exactly opposite
                            qa = PoseSE2([1.0, 2.0], ta)
                            qb = PoseSE2([0.5, -1.0], tb if variant == 2 else ta - math.pi)
                            tq = float(qb[2])
                            M = np.dot(qa.to_matrix(), np.linalg.inv(qb.to_matrix()))
                            ex, Ex, Bx = Fraction(ta) - Fraction(tq), None, None
                            res.probe("matrix_inverse_product")
                        elif op["b"] % 2 == 0:
                            M = pa.to_matrix() @ pb.to_matrix()
                            ex, Ex, Bx = Fraction(ta) + Fraction(tb), Ea + Eb, Ba + Bb
                        else:
                            pinv = pb.inverse
                            M = pa.to_matrix() @ pinv.to_matrix()
                            ti = float(pinv[2])
                            ex, Ex, Bx = Fraction(ta) + Fraction(ti), Ea - Eb, Ba + Bb + 8 * EPS * (abs(tb) + 2 * math.pi)
                        r = PoseSE2.from_matrix(M)
                        res.probe("matrix_product")
                        tol = 64 * EPS * (abs(ta) + abs(tb) + 2 * math.pi)
                        if Ex is None:
                            ok = check2(i, r, ex, 4 * tol, None, None, "from_matrix(A.to_matrix() @ inv(B.to_matrix()))")
                            th = float(r[2])
                            E, B = Fraction(th), 8 * EPS * (abs(th) + 2 * math.pi)
                        else:
                            ok = check2(i, r, ex, tol, Ex, Bx + tol, "from_matrix(A.to_matrix() @ B.to_matrix())")
                            E, B = Ex, Bx + tol
                    elif kind == "via_disk":
                        r = self._via_disk(w, pa, "SE2", op.get("as", "vertex"), res)
                        if r is None:
                            V(i, "via-disk", "pose did not survive the file round trip")
                            break
                        tol = 8 * EPS * (abs(ta) + 2 * math.pi)
                        ok = check2(i, r, Fraction(ta), tol, Ea, Ba + tol, "export/import as " + op.get("as", "vertex"))
                        E, B = Ea, Ba + tol
                    elif kind == "optimize_chain":
                        out = self._optimize_chain(w, i, op, pool2, "SE2", res, modes)
                        ok = True
                        if out is not None:
                            for slot, p in out:
                                if not check2(i, p, None, None, None, None, "vertex after optimize()"):
                                    ok = False
                                    break
                                pool2[slot] = p
                                th = float(p[2])
                                m2[slot] = [Fraction(th), 8 * EPS * (abs(th) + 2 * math.pi)]
                        if not ok:
                            break
                        continue
                    else:
                        raise ValueError(kind)
                    if not ok:
                        break
                    pool2[dst] = r
                    # keep the accumulated bound from growing without limit: re-anchor on the stored value when it gets loose
                    if B > 1e-6:
                        th = float(r[2])
                        E, B = Fraction(th), 8 * EPS * (abs(th) + 2 * math.pi)
                    m2[dst] = [E, B]
                else:
                    pa, pb = pool3[a], pool3[b]
                    ba, bb = m3[a], m3[b]
                    if kind == "scribble_views":
                        keep = np.array(pa, copy=True).tobytes()
                        for name in ("position", "orientation", "to_array", "to_compact"):
                            val = getattr(pa, name)
                            val = val() if callable(val) else val
                            if isinstance(val, np.ndarray) and val.ndim and val.flags.writeable:
                                val *= 2.0
                                val += 1.0
                        res.probe("views_scribbled")
                        res.n_checks += 1
                        if np.array(pa).tobytes() != keep:
                            V(i, "accessor-is-live-view", "editing what position/orientation/to_array/to_compact returned changed the pose to %s" % np.array(pa).tolist())
                            break
                        continue
                    if kind == "identity":
                        r = PoseSE3.identity()
                        res.probe("identity_constructed")
                        res.n_checks += 1
                        if np.array(r).tobytes() != np.array([0.0, 0.0, 0.0, 0.0, 0.0, 0.0, 1.0]).tobytes():
                            V(i, "identity", "PoseSE3.identity() returned %s" % np.array(r).tolist())
                            break
                        beta = 4 * EPS
                        ok = True
                    elif kind == "construct":
                        vals = xfl(op["v"])
                        r = PoseSE3(vals[:3], vals[3:])
                        beta = 4 * EPS
                        ok = check3(i, r, beta, "PoseSE3(unit q)")
                    elif kind in ("compose", "ominus"):
                        r = (pa + pb) if kind == "compose" else (pa - pb)
                        beta = bmul(ba, bb, extra=8 * EPS)
                        ok = check3(i, r, beta, "p %s q" % ("+" if kind == "compose" else "-"), qnorm(pa) * qnorm(pb), 8 * EPS)
                    elif kind == "inverse":
                        r = pa.inverse
                        beta = bmul(ba, extra=2 * EPS)
                        ok = check3(i, r, beta, "p.inverse", qnorm(pa), 2 * EPS)
                    elif kind in ("boxplus", "iadd"):
                        d = np.array(xfl(op["d"]), dtype=np.float64)
                        rn = float(np.linalg.norm(d[3:]))
                        if rn > 1.0:
                            res.probe("boxplus_norm_gt1_branch")
                        elif rn == 1.0:
                            res.probe("boxplus_norm_eq1")
                        dkind = op.get("dkind", "fresh")
                        keep = np.array(pa, copy=True)
                        try:
                            if kind == "boxplus":
                                r = pa + operand(d, dkind, buf3)
                            else:
                                r = pa
                                r += operand(d, dkind, buf3)
                        except (NotImplementedError, TypeError):
                            if dkind in ("list", "tuple"):
                                res.probe("operand_type_refused")
                                if keep.tobytes() != np.array(pool3[a]).tobytes():
                                    V(i, "iadd-mutated-operand", "a refused p += d still changed the operand")
                                    break
                                continue
                            raise
                        if dkind == "buffer":
                            res.probe("increment_buffer_reused")
                        if not operand_untouched():
                            V(i, "increment-mutated", "p [+] d changed the caller's increment array")
                            break
                        if keep.tobytes() != np.array(pool3[a]).tobytes():
                            V(i, "iadd-mutated-operand", "p + d / p += d changed the operand in place")
                            break
                        if not isinstance(r, PoseSE3):
                            V(i, "result-type", "p [+] d returned a %s, not a PoseSE3" % type(r).__name__)
                            break
                        beta = bmul(ba, extra=12 * EPS)
                        ok = check3(i, r, beta, "p [+] d (|d_rot|=%r)" % rn, qnorm(pa), 12 * EPS)
                    elif kind == "copy":
                        r = pa.copy()
                        beta = ba
                        ok = check3(i, r, beta, "p.copy()", qnorm(pa), 2 * EPS)
                    elif kind == "construct_nonunit":
                        vals = xfl(op["v"])
                        r = PoseSE3(vals[:3], vals[3:])
                        beta = None  # not a unit quaternion: nothing is claimed until it is normalized
                        ok = True
                        res.probe("nonunit_constructed")
                    elif kind in ("normalize", "normalize_inplace"):
                        # in place on the pool object itself (whatever was computed from it before, e.g. its inverse,
                        # must not be served stale afterwards) or on a copy
                        r = pa if kind == "normalize_inplace" else pa.copy()
                        if kind == "normalize_inplace":
                            dst = a
                            res.probe("normalize_inplace")
                            if (op["b"] + op["dst"]) % 3 == 0:
                                # the owner rescales the quaternion entries in place first (whatever an earlier normalize()
                                # may have remembered about this object is stale now)
                                r[3:] *= [1.7, 0.25, -1.0][(op["b"]) % 3]
                                res.probe("quaternion_edited_in_place_before_normalize")
                        n0 = qnorm(r)
                        if n0 == 0.0 or not math.isfinite(n0):
                            continue
                        R0 = r.to_matrix()[:3, :3] / (n0 * n0)
                        r.normalize()
                        res.probe("normalize_checked")
                        beta = 4 * EPS
                        ok = check3(i, r, beta, "normalize()")
                        if ok:
                            res.n_checks += 2
                            if not (r[6] >= 0.0):
                                V(i, "normalize-sign", "normalize() left scalar part %r < 0" % float(r[6]))
                                ok = False
                            else:
                                dR = float(np.max(np.abs(r.to_matrix()[:3, :3] - R0)))
                                if not dR <= 32 * EPS:
                                    V(i, "normalize-rotation", "normalize() changed the rotation matrix by %.3g" % dR)
                                    ok = False
                    elif kind == "via_disk":
                        r = self._via_disk(w, pa, "SE3", op.get("as", "vertex"), res)
                        if r is None:
                            V(i, "via-disk", "pose did not survive the file round trip")
                            break
                        beta = 8 * EPS if op.get("as") == "measurement" else bmul(ba, extra=4 * EPS)
                        ok = check3(i, r, beta, "export/import as " + op.get("as", "vertex"))
                    elif kind == "optimize_chain":
                        out = self._optimize_chain(w, i, op, pool3, "SE3", res, modes, m3)
                        ok = True
                        if out is not None:
                            iters = op["iters"]
                            for slot, p, b0, n0 in out:
                                beta = bmul(b0, extra=12 * EPS * iters)
                                if not check3(i, p, beta, "vertex after %d optimizer iterations" % iters, n0, 12 * EPS * iters):
                                    ok = False
                                    break
                                pool3[slot] = p
                                m3[slot] = beta
                        if not ok:
                            break
                        continue
                    else:
                        raise ValueError(kind)
                    if not ok:
                        break
                    if beta is None:
                        # unclaimed (non-unit) results are only kept while they stay ordinary numbers
                        nn = qnorm(r)
                        if not (np.all(np.isfinite(np.array(r))) and 1e-100 < nn < 1e100):
                            continue
                    if beta is not None and beta > 1e-9:
                        # products multiply norms, so repeated self-composition doubles the deviation each time; once the
                        # budget gets loose, renormalise the stored pose the way a user would (deterministic, part of the history)
                        r = r.copy()
                        r.normalize()
                        beta = 4 * EPS
                        res.probe("auto_renormalized")
                    pool3[dst] = r
                    m3[dst] = beta
            log.note("end", [[repr(float(v)) for v in p] for p in pool2] + [[repr(float(v)) for v in p] for p in pool3])
            if n_done >= 10000:
                res.probe("chain_ge_1e4")
            if n_done >= 1000:
                res.probe("chain_ge_1000")
            nb = "lt100" if n_done < 100 else ("lt300" if n_done <= 300 else ("lt3000" if n_done <= 3000 else "1e4"))
            plat = (case.get("config") or {}).get("platform", {})
            sig = [sorted((k, min(v, 3) if k in ("optimize_chain", "via_disk", "normalize", "matrix") else (v > 0)) for k, v in hist.items()),
                   sorted(modes), plat.get("linesep"), plat.get("bufsize"), nb, len(case.get("faults", []))]
            res.faults_planned = len(case.get("faults", []))
            res.nontrivial = checked2 >= 20 and checked3 >= 20
            res.outcome("ops", n_done)
            finish_result(res, w, log, sig)
        return res

    # ------------------------------------------------------------------ helpers
    def _via_disk(self, w, pose, t, how, res):
        """Write the pose on a line of a .g2o file through S1, read it back through S2."""
        res.probe("via_disk")
        ident = PoseSE2.identity() if t == "SE2" else PoseSE3.identity()
        if how == "vertex":
            g = Graph([], [Vertex(7, pose.copy())])
        elif how == "param":
            from graphslam.g2o_parameters import G2OParameterSE2Offset, G2OParameterSE3Offset

            g = Graph([], [Vertex(7, ident)])
            cls = G2OParameterSE2Offset if t == "SE2" else G2OParameterSE3Offset
            key = ("PARAMS_SE2OFFSET" if t == "SE2" else "PARAMS_SE3OFFSET", 3)
            g._g2o_params = {key: cls(key, pose.copy())}
        else:
            n = 3 if t == "SE2" else 6
            g = Graph([EdgeOdometry([1, 2], np.eye(n), pose.copy())], [Vertex(1, ident.copy()), Vertex(2, ident.copy())])
        g.to_g2o(PATH)
        g2 = Graph.from_g2o(PATH)
        if how == "vertex":
            return g2._vertices[0].pose if len(g2._vertices) == 1 else None
        if how == "param":
            vals = list((g2._g2o_params or {}).values())
            return vals[0].value if len(vals) == 1 else None
        return g2._edges[0].estimate if len(g2._edges) == 1 else None

    def _optimize_chain(self, w, i, op, pool, t, res, modes, model=None):
        """A small graph around pool poses; run the optimizer; return [(slot, pose[, beta])] or None if not judged."""
        slots = op["slots"]
        verts = [Vertex(k, pool[s].copy()) for k, s in enumerate(slots)]
        if op.get("identity_vertex") and len(verts) >= 2:
            # a free vertex whose initial guess is the object returned by identity() (not a copy of it)
            verts[-1].pose = PoseSE2.identity() if t == "SE2" else PoseSE3.identity()
            res.probe("identity_object_as_vertex_pose")
        start_norms = [qnorm(v.pose) for v in verts] if t == "SE3" else None
        unit_start = [k == len(verts) - 1 and bool(op.get("identity_vertex")) for k in range(len(verts))]
        n = 3 if t == "SE2" else 6
        lcg = (i * 2654435761 + 97) & 0xFFFFFFFF

        def noise():
            nonlocal lcg
            lcg = (lcg * 1664525 + 1013904223) & 0xFFFFFFFF
            return (lcg / 0xFFFFFFFF - 0.5) * 2.0 * op["noise"]

        edges = []
        for k in range(len(verts) - 1):
            est = verts[k + 1].pose - verts[k].pose
            if op["noise"]:
                d = np.array([noise() for _ in range(n)])
                if t == "SE3":
                    d[3:] *= 0.3
                est = est + d
            edges.append(EdgeOdometry([k, k + 1], np.eye(n), est))
        edges.append(EdgeOdometry([0, len(verts) - 1], np.eye(n), verts[-1].pose - verts[0].pose))
        g = Graph(edges, verts)
        modes.add(op["solver"])
        fired_before = len(w.plan.fired)
        nf0 = w.natural_nonfinite_solves
        try:
            g.optimize(tol=0.0, max_iter=op["iters"], fix_first_pose=True, verbose=False)
        except Exception as e:  # noqa -- not C11's business
            res.outcome("optimize_raised:" + type(e).__name__)
            return None
        res.probe("optimize_se2" if t == "SE2" else "optimize_se3")
        if any(f["kind"] == "wild" for f in w.plan.fired[fired_before:]):
            res.probe("wild_step_applied")
        finite_positions = all(bool(np.all(np.isfinite(np.array(v.pose)[: (2 if t == "SE2" else 3)]))) for v in g._vertices)
        if w.natural_nonfinite_solves > nf0 or not finite_positions:
            res.probe("optimize_nonfinite_skipped")
            return None
        if t == "SE2":
            return [(s, v.pose) for s, v in zip(slots, g._vertices)]
        return [(s, v.pose, (None if (model[s] is None and not unit_start[k]) else 4 * EPS + abs(start_norms[k] - 1.0)), start_norms[k])
                for k, (s, v) in enumerate(zip(slots, g._vertices))]

    def shrink_moves(self, case):
        return []
