"""C14 -- .g2o import is faithful to the file.

Engine ``simio``: one synthesised file, delivered through the simulated device
under many read schedules / logger configurations to every loader entry point,
compared with an independent reference parser (DESIGN.md section 4, C14).
"""

import copy
import logging
import math
import re
from fractions import Fraction

import numpy as np

from graphslam.graph import Graph

from . import graphs, simio, useredges
from .core import EventLog, Result, fx, xf
from .simopt import OptEngineBase, draw_config, finish_result, pick_event, pos_bucket
from .world import World

PI_F = Fraction("3.14159265358979323846264338327950288419716939937510582097494459")
EPS = float(np.finfo(float).eps)

TAGS = ["VERTEX_XY", "VERTEX_TRACKXYZ", "VERTEX_SE2", "VERTEX_SE3:QUAT", "EDGE_SE2", "EDGE_SE3:QUAT", "EDGE_SE2_XY",
        "EDGE_SE3_TRACKXYZ", "PARAMS_SE2OFFSET", "PARAMS_SE3OFFSET"]
CUSTOM_TAGS = ["EDGE_DISTANCE", "EDGE_PRIOR_XY", "VISUAL_RANGE", "PRIOR_XY"]
ENTRIES = ["Graph.from_g2o", "Graph.from_g2o+custom", "Graph.from_g2o+override+custom", "load_g2o", "load_g2o_r2", "load_g2o_r3", "load_g2o_se2", "load_g2o_se3"]
PATH = "/simfs/in.g2o"


# --------------------------------------------------------------------------- #
# number syntax
# --------------------------------------------------------------------------- #
def fmt_float(rng, x, exotic):
    """Some text that float() maps to exactly x."""
    r = repr(float(x))
    if not exotic or not math.isfinite(x):
        return r
    forms = [r]
    if x == int(x) and abs(x) < 1e15:
        i = int(x)
        sign = "-" if (x < 0 or (x == 0 and math.copysign(1, x) < 0)) else ""
        forms += ["%s%d" % (sign, abs(i)), "%s%d." % (sign, abs(i)), "%s%d.000000" % (sign, abs(i)), "%s%de0" % (sign, abs(i))]
        if abs(i) >= 1000:
            forms.append("%s%s" % (sign, format(abs(i), "_d")))
        if i == 0:
            forms += [sign + ".0", sign + "0e5", sign + "0E-3"]
    forms.append("%.17e" % x)
    forms.append(("%.17e" % x).upper())
    forms.append("%.17g" % x)
    if x > 0 or (x == 0 and math.copysign(1, x) > 0):
        forms.append("+" + r)
    if 0 < abs(x) < 1 and r.startswith(("0.", "-0.")) and "e" not in r:
        forms.append(r.replace("0.", ".", 1))
    if "e" not in r and "." in r:
        forms.append(r + "000")
        forms.append(r + "e0")
        forms.append(r + "E+00")
    cand = rng.choice(forms)
    try:
        ok = float(cand) == x and (x != 0 or math.copysign(1, float(cand)) == math.copysign(1, x))
    except ValueError:
        ok = False
    return cand if ok else r


def fmt_int(rng, i, exotic):
    if not exotic:
        return str(i)
    forms = [str(i)]
    if i >= 0:
        forms += ["+%d" % i, "%03d" % i]
    if abs(i) >= 1000:
        forms.append(format(i, "_d"))
    cand = rng.choice(forms)
    return cand if int(cand) == i else str(i)


def exact_wrap(theta):
    """Independent exact wrap of a finite float angle into [-pi, pi), rounded once."""
    t = Fraction(theta)
    two_pi = 2 * PI_F
    k = (t + PI_F) // two_pi
    return float(t - k * two_pi)


# --------------------------------------------------------------------------- #
# reference parser (the model)
# --------------------------------------------------------------------------- #
LINE_SPLIT = re.compile(r"\r\n|\n")


def _sym(upper, n):
    m = [[0.0] * n for _ in range(n)]
    k = 0
    for i in range(n):
        for j in range(i, n):
            m[i][j] = upper[k]
            m[j][i] = upper[k]
            k += 1
    return [[fx(v) for v in row] for row in m]


def _pose(t, vals, angle_in_file=None):
    s = {"t": t, "v": [fx(v) for v in vals]}
    if angle_in_file is not None and -math.pi <= angle_in_file < math.pi:
        s["exact_angle"] = True  # the number on the line is already a valid angle: it must be carried as it is
    return s


def reference_parse(text, custom, override=False):
    """text -> (workload spec, n unrecognised non-blank lines, max |angle| seen).  Independent of graphslam."""
    vertices, edges, params = [], [], {}
    junk = []
    big = 0.0
    lines = LINE_SPLIT.split(text)
    for line in lines:
        if not line.strip():
            continue
        head, _, rest = line.partition(" ")
        if not _:
            junk.append(line)
            continue
        f = rest.split()
        try:
            if head == "VERTEX_XY":
                vertices.append({"id": int(f[0]), "pose": _pose("R2", [float(x) for x in f[1:3]])})
            elif head == "VERTEX_TRACKXYZ":
                vertices.append({"id": int(f[0]), "pose": _pose("R3", [float(x) for x in f[1:4]])})
            elif head == "VERTEX_SE2":
                x, y, th = (float(v) for v in f[1:4])
                big = max(big, abs(th))
                vertices.append({"id": int(f[0]), "pose": _pose("SE2", [x, y, exact_wrap(th)], th)})
            elif head == "VERTEX_SE3:QUAT":
                vertices.append({"id": int(f[0]), "pose": _pose("SE3", [float(x) for x in f[1:8]])})
            elif head == "EDGE_DISTANCE" and custom:
                edges.append({"kind": "distance", "ids": [int(f[0]), int(f[1])], "estimate": {"t": "scalar", "v": fx(float(f[2]))},
                              "information": [[fx(float(f[3]))]]})
            elif head == "VISUAL_RANGE" and custom:
                edges.append({"kind": "visual_range", "ids": [int(f[0]), int(f[1])], "estimate": {"t": "scalar", "v": fx(float(f[2]))},
                              "information": [[fx(float(f[3]))]]})
            elif head == "PRIOR_XY" and custom:
                nums = [float(x) for x in f[1:]]
                edges.append({"kind": "prior_tag_p", "ids": [int(f[0])], "estimate": {"t": "arr", "v": [fx(nums[0]), fx(nums[1])]},
                              "information": _sym(nums[2:5], 2)})
            elif head == "EDGE_PRIOR_XY" and custom:
                nums = [float(x) for x in f[1:]]
                edges.append({"kind": "point_prior_xy", "ids": [int(f[0])], "estimate": {"t": "arr", "v": [fx(nums[0]), fx(nums[1])]},
                              "information": _sym(nums[2:5], 2)})
            elif head == "EDGE_SE2":
                nums = [float(x) for x in f[2:]]
                big = max(big, abs(nums[2]))
                edges.append({"kind": "robust_odometry_se2" if override else "odometry", "ids": [int(f[0]), int(f[1])],
                              "estimate": _pose("SE2", [nums[0], nums[1], exact_wrap(nums[2])], nums[2]), "information": _sym(nums[3:9], 3)})
            elif head == "EDGE_SE3:QUAT":
                nums = [float(x) for x in f[2:]]
                q = nums[3:7]
                n = math.sqrt(math.fsum(v * v for v in q))
                edges.append({"kind": "odometry", "ids": [int(f[0]), int(f[1])],
                              "estimate": _pose("SE3", nums[:3] + [v / n for v in q]), "information": _sym(nums[7:28], 6)})
            elif head == "EDGE_SE2_XY":
                nums = [float(x) for x in f[2:]]
                edges.append({"kind": "landmark", "ids": [int(f[0]), int(f[1])], "estimate": _pose("R2", nums[:2]),
                              "information": _sym(nums[2:5], 2), "offset": _pose("SE2", [0.0, 0.0, 0.0]), "offset_id": 0})
            elif head == "EDGE_SE3_TRACKXYZ":
                nums = [float(x) for x in f[3:]]
                pid = int(f[2])
                edges.append({"kind": "landmark", "ids": [int(f[0]), int(f[1])], "estimate": _pose("R3", nums[:3]),
                              "information": _sym(nums[3:9], 3), "offset": params[("PARAMS_SE3OFFSET", pid)]["v"], "offset_id": pid})
            elif head == "PARAMS_SE2OFFSET":
                x, y, th = (float(v) for v in f[1:4])
                big = max(big, abs(th))
                params[("PARAMS_SE2OFFSET", int(f[0]))] = {"key": ["PARAMS_SE2OFFSET", int(f[0])], "v": _pose("SE2", [x, y, exact_wrap(th)], th)}
            elif head == "PARAMS_SE3OFFSET":
                params[("PARAMS_SE3OFFSET", int(f[0]))] = {"key": ["PARAMS_SE3OFFSET", int(f[0])], "v": _pose("SE3", [float(x) for x in f[1:8]])}
            else:
                junk.append(line)
        except (IndexError, ValueError, KeyError) as e:  # the generator only emits well-formed lines
            raise AssertionError("reference parser: malformed line %r (%s)" % (line, e))
    return {"vertices": vertices, "edges": edges, "params": list(params.values())}, junk, big


# --------------------------------------------------------------------------- #
# file generator (the workload)
# --------------------------------------------------------------------------- #
def gen_file(rng):
    meta = {}
    exotic = rng.random() < 0.6
    meta["exotic"] = exotic
    mag = rng.choice(["moderate", "moderate", "wide"])

    def val():
        if mag == "moderate":
            return simio.wide_float(rng, rng.choice(["unit", "moderate", "int", "ugly", "zero"]))
        return simio.wide_float(rng)

    def ang():
        r = rng.random()
        if r < 0.6:
            return rng.uniform(-math.pi, math.pi)
        if r < 0.8:
            return rng.uniform(-1000, 1000)
        if r < 0.85:
            return rng.uniform(-1e6, 1e6)
        return rng.choice([0.0, math.pi, -math.pi, 2 * math.pi, 3.0, -3.5, 7.0, math.nextafter(math.pi, 0), float(rng.randint(-20, 20))])

    def F(x):
        return fmt_float(rng, x, exotic)

    def I(i):
        return fmt_int(rng, i, exotic)

    def tri(n):
        if rng.random() < 0.25:
            # the loader must carry whatever numbers are on the line: tiny, huge, zero and negative entries included
            return [simio.wide_float(rng, rng.choice(["tiny", "huge", "zero", "unit", "ugly", "int"])) if rng.random() < 0.5
                    else rng.choice([1e-17, -5e-18, 3e-300, 5e-324, 1e-16, 2.220446049250313e-16, 1e300, 0.0, -0.0, 1.0])
                    for _ in range(n * (n + 1) // 2)]
        m = simio.spd_information(rng, n, True, 1e6)
        return [float(m[i][j]) for i in range(n) for j in range(i, n)]

    big = 12 if rng.random() < 0.03 else 1  # occasionally a file with hundreds of lines
    if big > 1:
        meta["big_file"] = True
    n2 = rng.randint(0, 5) * big
    n3 = rng.randint(0, 5) * big
    if n2 + n3 == 0 and rng.random() < 0.8:
        n2 = 2  # (otherwise: a file with no vertex at all -- parameters, junk and blank lines only)
    nl2 = rng.randint(0, 3) if n2 else 0
    nl3 = rng.randint(0, 3) if n3 else 0
    nv = n2 + n3 + nl2 + nl3
    ids, scheme = graphs.make_ids(rng, nv)
    meta["ids"] = scheme
    kinds = ["SE2"] * n2 + ["SE3"] * n3 + ["R2"] * nl2 + ["R3"] * nl3
    by = {k: [ids[i] for i in range(nv) if kinds[i] == k] for k in ("SE2", "SE3", "R2", "R3")}
    vlines = []
    for i in range(nv):
        k = kinds[i]
        if k == "SE2":
            vlines.append(("VERTEX_SE2", [I(ids[i]), F(val()), F(val()), F(ang())]))
        elif k == "SE3":
            q = simio.unit_quat(rng) if rng.random() < 0.8 else [val() for _ in range(4)]
            vlines.append(("VERTEX_SE3:QUAT", [I(ids[i])] + [F(val()) for _ in range(3)] + [F(v) for v in q]))
        elif k == "R2":
            vlines.append(("VERTEX_XY", [I(ids[i]), F(val()), F(val())]))
        else:
            vlines.append(("VERTEX_TRACKXYZ", [I(ids[i]), F(val()), F(val()), F(val())]))
    plines = []
    p3ids = rng.sample([0, 1, 2, 5, 42, 1000], rng.randint(1, 3)) if (nl3 or rng.random() < 0.3) else []
    for pid in p3ids:
        q = simio.unit_quat(rng)
        plines.append(("PARAMS_SE3OFFSET", [I(pid)] + [F(val()) for _ in range(3)] + [F(v) for v in q]))
    for pid in (rng.sample([0, 3, 9], rng.randint(1, 2)) if rng.random() < 0.4 else []):
        plines.append(("PARAMS_SE2OFFSET", [I(pid), F(val()), F(val()), F(ang())]))
    elines = []
    if len(by["SE2"]) >= 2:
        for _ in range(rng.randint(1, 5 * big)):
            a, b = rng.sample(by["SE2"], 2)
            elines.append(("EDGE_SE2", [I(a), I(b), F(val()), F(val()), F(ang())] + [F(v) for v in tri(3)]))
    if len(by["SE3"]) >= 2:
        for _ in range(rng.randint(1, 4 * big)):
            a, b = rng.sample(by["SE3"], 2)
            q = simio.unit_quat(rng)
            if rng.random() < 0.3:
                s = rng.choice([2.0, 0.5, 1.0 + 1e-7, 10.0])
                q = [v * s for v in q]
            elines.append(("EDGE_SE3:QUAT", [I(a), I(b)] + [F(val()) for _ in range(3)] + [F(v) for v in q] + [F(v) for v in tri(6)]))
    for l in by["R2"]:
        for _ in range(rng.randint(0, 2)):
            elines.append(("EDGE_SE2_XY", [I(rng.choice(by["SE2"])), I(l), F(val()), F(val())] + [F(v) for v in tri(2)]))
    for l in by["R3"]:
        for _ in range(rng.randint(0, 2)):
            if p3ids:
                elines.append(("EDGE_SE3_TRACKXYZ", [I(rng.choice(by["SE3"])), I(l), I(rng.choice(p3ids))] + [F(val()) for _ in range(3)] + [F(v) for v in tri(3)]))
    clines = []
    with_custom = rng.random() < 0.35
    meta["custom"] = with_custom
    if with_custom:
        allp = by["SE2"] + by["SE3"]
        for _ in range(rng.randint(1, 3)):
            if rng.random() < 0.5 and len(by["SE2"]) >= 2:
                a, b = rng.sample(by["SE2"], 2)
                clines.append((rng.choice(["EDGE_DISTANCE", "VISUAL_RANGE"]), [I(a), I(b), F(abs(val()) + 0.1), F(10.0 ** rng.uniform(-2, 2))]))
            elif allp:
                clines.append((rng.choice(["EDGE_PRIOR_XY", "PRIOR_XY"]), [I(rng.choice(allp)), F(val()), F(val())] + [F(v) for v in tri(2)]))
    if elines and rng.random() < 0.25:
        # the same measurement twice is two edges: textually identical edge lines (a duplicate may differ in spacing only)
        for _ in range(rng.randint(1, 2)):
            elines.insert(rng.randrange(len(elines) + 1), rng.choice(elines))
        meta["duplicate_edge_lines"] = True
    # legal order: parameters precede the edges that use them; everything else free
    style = rng.choice(["canonical", "vertices_last", "shuffled", "shuffled"])
    meta["order"] = style
    body = vlines + elines + clines
    if style == "canonical":
        ordered = plines + vlines + elines + clines
    elif style == "vertices_last":
        ordered = plines + elines + clines + vlines
    else:
        rng.shuffle(body)
        ordered = plines + body
        # parameters may also be sprinkled anywhere before their first use; SE2 offsets are never referenced
        for p in [p for p in plines if p[0] == "PARAMS_SE2OFFSET"]:
            ordered.remove(p)
            ordered.insert(rng.randrange(len(ordered) + 1), p)
    junk_pool = [
        "# a comment", "#VERTEX_SE2 1 2 3 4", "FIX 0", "VERTEX_SE2X 7 1.0 2.0 3.0", "EDGE_SE2_XYZ 1 2 3 4 5 6 7", "EDGE_SE3:QUATERNION 0 1 0 0 0 0 0 0 1",
        "vertex_se2 3 1.0 2.0 0.5", "VERTEX_SE2", "EDGE_SE2", "VERTEX_XYZ 4 1 2 3", "PARAMS_CAMERAPARAMETERS 0 1 2 3", "This line is not supported",
        "VERTEX_SE3 5 0 0 0 0 0 0 1", "EDGE_SE3 0 1 0 0 0 0 0 0 1", "PARAMS_SE3OFFSET_X 1 0 0 0 0 0 0 1", "EDGE_SE2:QUAT 0 1 1 2 3",
        "TUTORIAL_PARAMS 0", "VERTEX_POINT_XY 2 0.5 0.5", "EDGE_DISTANCE_SE3 1 2 3.0 1.0", "EDGE_PRIOR 1 2 3",
        "# another comment", "# a third comment", "FIX 1", "FIX 2", "VERTEX_SE2X 8 0.0 1.0 2.0", "PARAMS_CAMERAPARAMETERS 1 4 5 6",
        "# page break\x0cVERTEX_SE2 990001 5 5 0.5", "\x0c# form feed first", "# vt\x0bVERTEX_XY 990002 1 2", "# fs\x1cEDGE_SE2 990001 990001 0 0 0 1 0 0 1 0 1",
        "# gs\x1dFIX 3", "# rs\x1ePARAMS_SE3OFFSET 990003 0 0 0 0 0 0 1",
        "% exported by MATLAB", "# 100% accepted", "# %d vertices, %s edges", "%", "# {0} {name} {}",
    ]
    blank_pool = ["", "", "   ", " ", "\t"]
    lines = []
    n_junk = rng.choice([0, 0, 1, 2, 3, 6])
    if rng.random() < 0.02:
        n_junk = rng.randint(101, 260)  # a file exported by another tool: mostly lines we do not understand
    n_blank = rng.choice([0, 0, 1, 2, 4])
    items = [("line", t, f) for t, f in ordered]
    for _ in range(n_junk):
        items.insert(rng.randrange(len(items) + 1), ("junk", rng.choice(junk_pool), None))
    for _ in range(n_blank):
        items.insert(rng.randrange(len(items) + 1), ("blank", rng.choice(blank_pool), None))
    eol_style = rng.choice(["lf", "lf", "crlf", "mixed"])
    meta["eol"] = eol_style
    spacey = rng.random() < 0.4
    meta["extra_spaces"] = spacey
    for kind, t, f in items:
        if kind == "line":
            sep = lambda: " " * (rng.choice([1, 1, 2, 3, 7]) if spacey else 1)  # noqa: E731
            s = t + sep() + "".join(x + sep() for x in f[:-1]) + f[-1]
            if spacey and rng.random() < 0.4:
                s += " " * rng.randint(1, 3)
        else:
            s = t
        eol = "\n" if eol_style == "lf" else ("\r\n" if eol_style == "crlf" else rng.choice(["\n", "\r\n"]))
        lines.append({"s": s, "eol": eol, "kind": kind})
    if lines and rng.random() < 0.3:
        lines[-1]["eol"] = ""
        meta["no_final_newline"] = True
    meta["n_lines"] = len(lines)
    meta["n_junk"] = n_junk
    return {"lines": lines}, meta


def text_of(workload, which=0):
    lines = workload["lines"] if which == 0 else workload.get("lines_b") or workload["lines"]
    return "".join(ln["s"] + ln["eol"] for ln in lines)


N_INT_FIELDS = {"VISUAL_RANGE": 2, "PRIOR_XY": 1, "VERTEX_XY": 1, "VERTEX_TRACKXYZ": 1, "VERTEX_SE2": 1, "VERTEX_SE3:QUAT": 1, "EDGE_SE2": 2, "EDGE_SE3:QUAT": 2, "EDGE_SE2_XY": 2,
                "EDGE_SE3_TRACKXYZ": 3, "PARAMS_SE2OFFSET": 1, "PARAMS_SE3OFFSET": 1, "EDGE_DISTANCE": 2, "EDGE_PRIOR_XY": 1}


def second_file(rng, lines):
    """Same tags, ids and parameter ids as the first file, other numbers: what a loader that remembers
    anything between two calls would mix up."""
    out = []
    shift = rng.choice([0, 0, 100, 7000])  # other parameter ids in the second file (param lines and their users move together)
    drop_unused = rng.random() < 0.5
    for ln in lines:
        ln2 = dict(ln)
        if ln["kind"] == "line":
            parts = ln["s"].split()
            if parts[0] == "PARAMS_SE2OFFSET" and drop_unused:
                continue  # never referenced by an edge: the second file simply does not have it
            if shift and parts[0] in ("PARAMS_SE3OFFSET", "PARAMS_SE2OFFSET"):
                parts[1] = str(int(parts[1]) + shift)
                ln2["s"] = " ".join(parts)
            elif shift and parts[0] == "EDGE_SE3_TRACKXYZ":
                parts[3] = str(int(parts[3]) + shift)
                ln2["s"] = " ".join(parts)
            ln = ln2
            ln2 = dict(ln)
        if ln["kind"] == "line" and rng.random() < 0.7:
            parts = ln["s"].split()
            k = 1 + N_INT_FIELDS.get(parts[0], 1)
            new = []
            for pos, x in enumerate(parts[k:]):
                v = float(x)
                nv = v * rng.choice([2.0, 0.5, -1.0, 1.5]) + rng.choice([0.0, 0.25, -0.125, 1.0])
                if parts[0] == "EDGE_SE3:QUAT" and 3 <= pos <= 6:
                    nv = -v  # a measurement quaternion must stay non-zero (it is normalised on import); q -> -q
                new.append(repr(nv) if math.isfinite(nv) else x)
            ln2["s"] = " ".join(parts[:k] + new)
        out.append(ln2)
    return out


class C14(OptEngineBase):
    PROPERTY = "C14"
    SWEEP_MENU = {"disk": ["eio_read"]}
    ENGINE_NAME = "simio"
    TIERS = {
        "quick": {"runs": 4000, "budget_s": 75, "chunk": 32},
        "thorough": {"runs": 100000, "budget_s": 900, "chunk": 64},
    }
    RULE = (
        "Each run = one seeded .g2o text synthesised from a line grammar (ten built-in tags + two registered custom tags; "
        "any float()/int() syntax; 1..7 spaces between fields, trailing spaces; LF / CRLF / mixed endings, optional missing final "
        "newline; interleaved blank, comment, unknown and near-miss lines; legal orders incl. vertices after edges) and 3..7 load "
        "ops, each naming a loader entry point (Graph.from_g2o with/without custom types, load_g2o, load_g2o_r2/_r3/_se2/_se3), its "
        "own read schedule (raw transfer limit 1..64 bytes or 4096, buffer size 1..8192) and logger personality; 0..2 read faults "
        "(short read, EIO, slow) at (op, device event) from a dry run. Oracle: an independent reference parser (objects, order, "
        "numbers bitwise with the stated exemptions, symmetric information, parameter resolution, warning count bounds) and "
        "agreement of all entry points/schedules. Non-trivial = >=1 edge line and >=2 loads compared; distinct = distinct signature "
        "(tag multiset, eol style, order style, exotic-number flag, per-op entry/xfer bucket/logger/outcome, faults)."
    )
    ASSUMPTIONS = [
        "the reference parser uses Python's float()/int() for the text-to-number step (the statement defines accepted syntax as what float() accepts)",
        "SE(2) angles are compared modulo 2*pi within 4 ulp(pi) + 8 eps*|angle in file| (float fmod drift for large angles)",
        "SE(3) measurement quaternions are compared as rotations to 8 eps (renormalisation exemption)",
        "files are well-formed: unique parameter ids, unique vertex ids, every referenced vertex/parameter defined, no lone CR, ASCII",
    ]
    PROBES = ["tag_" + t for t in TAGS] + [
        "custom_tag", "near_miss_tag", "crlf", "no_final_newline", "split_inside_number", "split_crlf_pair", "vertex_after_edge",
        "exotic_float_syntax", "logger_suppressed", "eio_fired", "xfer_1", "warnings_counted", "nonunit_measurement_quat", "two_files_interleaved", "control_char_junk", "malformed_file_load_caught", "loaded_graph_edited_in_place",
    ]

    def generate(self, rng, tier, index):
        config = draw_config(rng)
        config["logger"] = {"kind": "default"}
        config["warnings"] = {"kind": "error_all" if rng.random() < 0.12 else "always"}  # a host running with -W error
        workload, meta = gen_file(rng)
        two = rng.random() < 0.35
        if two:
            workload["lines_b"] = second_file(rng, workload["lines"])
            meta["two_files"] = True
        if rng.random() < 0.3:
            # a third, MALFORMED file (nothing is claimed about loading it): the host program catches the failure and goes
            # on loading well-formed files, which must not be affected by whatever the failed load left behind
            bad = []
            for ln in workload["lines"]:
                if ln["kind"] == "line" and ln["s"].split()[0] in ("PARAMS_SE3OFFSET", "PARAMS_SE2OFFSET"):
                    parts = ln["s"].split()
                    parts[1] = str(int(parts[1]) + 5000)
                    bad.append({"s": " ".join(parts), "eol": "\n", "kind": "line"})
            if not bad:
                bad.append({"s": "PARAMS_SE3OFFSET 5000 1 2 3 0 0 0 1", "eol": "\n", "kind": "line"})
            bad += [dict(ln) for ln in workload["lines"]]
            bad.append({"s": rng.choice(["VERTEX_SE2 77 1.0 oops 3", "EDGE_SE2 990 991 0 0 0 1 0 0 1 0 1", "VERTEX_XY 5 1.0"]), "eol": "\n", "kind": "line"})
            workload["lines_bad"] = bad
            meta["bad_file"] = True
        ops = []
        entries = list(ENTRIES)
        rng.shuffle(entries)
        n_ops = rng.randint(3, 7)
        for e in entries[:n_ops]:
            ops.append({
                "op": "load", "entry": e,
                "xfer": rng.choice([1, 1, 2, 3, 5, 7, 13, 31, 64, 4096]),
                "bufsize": rng.choice([1, 2, 3, 16, 61, 512, 8192]),
                "logger": rng.choice(["default", "default", "default", "error_level", "debug_level", "raising_handler", "disabled"]),
                "file": rng.randrange(2) if two else 0,
                "scribble": rng.random() < 0.25,
            })
        if meta.get("big_file"):
            for o in ops:
                o["xfer"] = max(o["xfer"], 64)  # byte-wise delivery of a 100 kB file would only burn time
                o["bufsize"] = max(o["bufsize"], 61)
        if not any(o["entry"] == "Graph.from_g2o" for o in ops):
            ops[0]["entry"] = "Graph.from_g2o"
        if workload.get("lines_bad"):
            for _ in range(rng.randint(1, 2)):
                ops.insert(rng.randrange(len(ops)), {"op": "load_bad", "entry": rng.choice(["Graph.from_g2o", "load_g2o"]), "xfer": 4096, "bufsize": 8192, "logger": "default"})
        case = {"config": config, "workload": workload, "meta": meta, "ops": ops, "faults": []}
        if rng.random() < 0.45:
            dry = self.execute(copy.deepcopy(case), dry=True)
            acts = [a for a in dry.counts.get("__actions__", []) if a[0] >= 0 and a[2] == "read"]
            faults = []
            if acts:
                by_op = {}
                for a in acts:
                    by_op.setdefault(a[0], []).append(a)
                for _ in range(rng.choice([1, 1, 2])):
                    op = rng.choice(sorted(by_op))
                    evs = by_op[op]
                    a = evs[pick_event(rng, len(evs))]
                    kind = rng.choice(["eio_read", "short_read", "short_read", "slow"])
                    f = {"op_index": a[0], "seam": "disk", "event": a[1], "kind": kind, "of": len(evs)}
                    if kind == "short_read":
                        f["n"] = rng.randint(1, 3)
                    if not any(g["op_index"] == f["op_index"] and g["event"] == f["event"] for g in faults):
                        faults.append(f)
            case["faults"] = faults
        return case

    def _set_logger(self, kind):
        lg = logging.getLogger("graphslam")
        lgg = logging.getLogger("graphslam.graph")
        lgg.setLevel(logging.NOTSET)
        lg.setLevel(logging.NOTSET)
        lgg.disabled = False
        from .world import _RaisingHandler

        lg.handlers = [h for h in lg.handlers if not isinstance(h, _RaisingHandler)]
        if kind == "error_level":
            lgg.setLevel(logging.ERROR)
        elif kind == "debug_level":
            lg.setLevel(logging.DEBUG)
        elif kind == "disabled":
            lgg.disabled = True
        elif kind == "raising_handler":
            lg.handlers = [_RaisingHandler()] + lg.handlers

    def execute(self, case, dry=False):
        res = Result()
        log = EventLog()
        ops = case["ops"]
        meta = case.get("meta", {})
        sig_ops = []
        compared = 0
        texts = [text_of(case["workload"], 0), text_of(case["workload"], 1)]
        text = texts[0]
        paths = [PATH, "/simfs/other.g2o"]
        with World(case.get("config"), None if dry else case.get("faults"), log) as w:
            import graphslam.load as gload

            w.disk.put(paths[0], texts[0].encode("ascii"))
            w.disk.put(paths[1], texts[1].encode("ascii"))
            if case["workload"].get("lines_bad"):
                w.disk.put("/simfs/bad.g2o", "".join(ln["s"] + ln["eol"] for ln in case["workload"]["lines_bad"]).encode("ascii"))
            ref = {}
            if not dry:
                for which in (0, 1):
                    for custom in (False, True):
                        ref[(which, custom)] = reference_parse(texts[which], custom)
                    ref[(which, "override")] = reference_parse(texts[which], True, override=True)
                self._probes_for_text(res, case, text)
                if case["workload"].get("lines_b"):
                    res.probe("two_files_interleaved")
            first_plain = {}
            g = None
            for i, op in enumerate(ops):
                w.begin_op(i)
                if op["op"] == "load_bad":
                    g = None
                    try:
                        if op["entry"] == "load_g2o":
                            gload.load_g2o("/simfs/bad.g2o")
                        else:
                            Graph.from_g2o("/simfs/bad.g2o")
                        outcome = "loaded"
                    except Exception as e:  # noqa -- expected: the file is malformed; nothing is claimed about it
                        outcome = "raised:" + type(e).__name__
                    sig_ops.append(["load_bad", outcome])
                    log.note("load_bad", outcome)
                    if not dry:
                        res.probe("malformed_file_load_caught")
                    continue
                w.disk.max_xfer = int(op["xfer"])
                w.disk.platform["bufsize"] = int(op["bufsize"])
                self._set_logger(op.get("logger", "default"))
                n_rec_before = len(w.capture.records)
                n_broken_before = len(w.capture.broken)
                fired_before = len(w.plan.fired)
                sc0, st0 = w.disk.split_crlf, w.disk.split_token
                raised = None
                g = None  # the previous graph is dropped before the next load, as in a loop over files
                custom = op["entry"].endswith("+custom")
                which = int(op.get("file", 0))
                path = paths[which]
                try:
                    if op["entry"] == "Graph.from_g2o+override+custom":
                        g = Graph.from_g2o(path, [useredges.RobustOdometrySE2] + list(useredges.CUSTOM_G2O_TYPES))
                        custom = "override"
                    elif op["entry"].startswith("Graph.from_g2o"):
                        g = Graph.from_g2o(path, list(useredges.CUSTOM_G2O_TYPES)) if custom else Graph.from_g2o(path)
                    else:
                        g = getattr(gload, op["entry"])(path)
                except Exception as e:  # noqa
                    raised = e
                finally:
                    self._set_logger("default")
                fired_kinds = {f["kind"] for f in w.plan.fired[fired_before:]}
                oc = "raised:" + type(raised).__name__ if raised is not None else "ok"
                xb = "1" if op["xfer"] == 1 else ("small" if op["xfer"] < 64 else "big")
                sig_ops.append([op["entry"], xb, op.get("logger"), oc, sorted(fired_kinds)])
                log.note("load", [op["entry"], oc])
                if dry:
                    continue
                res.outcome("load_" + oc.split(":")[0])
                if op["xfer"] == 1:
                    res.probe("xfer_1")
                if w.disk.split_crlf > sc0:
                    res.probe("split_crlf_pair", w.disk.split_crlf - sc0)
                if w.disk.split_token > st0:
                    res.probe("split_inside_number", w.disk.split_token - st0)

                def V(cls, msg):
                    res.violate("C14:" + cls, "op %d %s (xfer %d, bufsize %d, logger %s): %s" % (i, op["entry"], op["xfer"], op["bufsize"], op.get("logger"), msg))

                if "eio_read" in fired_kinds:
                    res.probe("eio_fired")
                    res.n_checks += 1
                    if raised is None:
                        V("read-fault-swallowed", "returned a graph although a device read failed with EIO")
                        break
                    if not isinstance(raised, OSError):
                        V("read-fault-wrong-exception", "device EIO surfaced as %s: %s" % (type(raised).__name__, raised))
                        break
                    continue
                if raised is not None:
                    V("load-raised", "raised %s: %s on a well-formed file" % (type(raised).__name__, raised))
                    break
                want, junk, big = ref[(which, custom)]
                # ids must be integers
                bad = None
                for v in g._vertices:
                    if isinstance(v.id, bool) or not isinstance(v.id, (int, np.integer)):
                        bad = "vertex id %r is a %s" % (v.id, type(v.id).__name__)
                for e in g._edges:
                    for vid in e.vertex_ids:
                        if isinstance(vid, bool) or not isinstance(vid, (int, np.integer)):
                            bad = "edge vertex id %r is a %s" % (vid, type(vid).__name__)
                if bad:
                    V("id-type", bad)
                    break
                try:
                    got = graphs.spec_of_graph(g)
                except Exception as e:  # noqa
                    V("unknown-objects", "the loaded graph holds objects the model does not know: %s" % e)
                    break
                res.n_checks += 1
                cyc = 1 + int(2 * EPS * big / simio.ULP_PI)
                m = simio.cmp_graph_specs(want, got, cycles=cyc)
                if m is not None:
                    V("unfaithful:" + m[0], m[1] + " [file vs loaded]")
                    break
                # angles that are already in [-pi, pi) on the line are carried exactly (the wrap exemption is for angles
                # that actually need wrapping)
                strict = []
                for k, (x, y) in enumerate(zip(want["vertices"], got["vertices"])):
                    strict.append(("vertex #%d" % k, x["pose"], y["pose"]))
                for k, (x, y) in enumerate(zip(want["edges"], got["edges"])):
                    strict.append(("edge #%d estimate" % k, x["estimate"], y["estimate"]))
                for x, y in zip(want.get("params") or [], got.get("params") or []):
                    strict.append(("parameter %r" % (x["key"],), x["v"], y["v"]))
                for what, x, y in strict:
                    if x.get("exact_angle") and x["v"][2] != y["v"][2]:
                        ax, ay = xf(x["v"][2]), xf(y["v"][2])
                        if ax == ay:
                            continue  # +0.0 / -0.0
                        res.n_checks += 1
                        bad = "%s: the angle on the line is %r (already in [-pi, pi)), the loaded angle is %r" % (what, ax, ay)
                        break
                if bad:
                    V("unfaithful:angle-not-exact", bad)
                    break
                # information matrices symmetric (bitwise), edges bound to the right vertices
                for k, e in enumerate(g._edges):
                    info = np.asarray(e.information)
                    if info.shape[0] != info.shape[1] or info.tobytes() != np.ascontiguousarray(info.T).tobytes():
                        bad = "edge #%d information is not symmetric" % k
                    if [v.id for v in e.vertices] != list(e.vertex_ids):
                        bad = "edge #%d is bound to vertices %r but names %r" % (k, [v.id for v in e.vertices], e.vertex_ids)
                if bad:
                    V("edge-structure", bad)
                    break
                # warnings on graphslam.graph
                broken = [r for r in w.capture.broken[n_broken_before:] if r[0] == "graphslam.graph"]
                if broken and op.get("logger", "default") in ("default", "debug_level", "raising_handler"):
                    V("warning-unrenderable", "a log record of graphslam.graph could not be rendered (%s) and was lost: %s" % (broken[0][3], broken[0][2]))
                    break
                recs = [r for r in w.capture.records[n_rec_before:] if r[0] == "graphslam.graph" and r[1] == logging.WARNING]
                others = [r for r in w.capture.records[n_rec_before:] if r[0] == "graphslam.graph" and r[1] > logging.WARNING]
                lk = op.get("logger", "default")
                if lk in ("default", "debug_level", "raising_handler"):
                    res.n_checks += 1
                    res.probe("warnings_counted")
                    nj = len(junk)
                    if nj == 0 and (recs or others):
                        V("spurious-warning", "no unrecognised line in the file but %d warning(s) were logged, e.g. %r" % (len(recs) + len(others), (recs + others)[0][2]))
                        break
                    if nj > 0 and not (1 <= len(recs) <= nj):
                        V("warning-count", "%d unrecognised non-blank lines, %d warnings logged" % (nj, len(recs)))
                        break
                    if 0 < len(recs) < nj:
                        # fewer warnings than skipped lines is only acceptable if every skipped line is still reported by its text
                        missing = [j for j in junk if not any(j.strip() in r[2] for r in recs)]
                        if missing:
                            V("warning-missing", "%d unrecognised non-blank lines but only %d warnings, and %d skipped line(s) are mentioned in none of them, e.g. %r"
                              % (nj, len(recs), len(missing), missing[0]))
                            break
                else:
                    res.probe("logger_suppressed")
                # all entry points / schedules agree
                if custom is False:
                    if which not in first_plain:
                        first_plain[which] = got
                    else:
                        res.n_checks += 1
                        if got != first_plain[which]:
                            V("entry-points-differ", "this load differs from the first Graph.from_g2o-equivalent load of the same bytes")
                            break
                compared += 1
                if op.get("scribble"):
                    # the loaded graph is the caller's: edit every array it holds in place (later loads must not care)
                    res.probe("loaded_graph_edited_in_place")
                    for v in g._vertices:
                        v.pose[0] = float(v.pose[0]) + 0.375
                    for e in g._edges:
                        if getattr(e, "offset", None) is not None:
                            e.offset[0] = float(e.offset[0]) + 0.3
                        if isinstance(e.estimate, np.ndarray) and e.estimate.ndim:
                            e.estimate[0] = float(e.estimate[0]) - 0.25
                        if isinstance(e.information, np.ndarray) and e.information.flags.writeable:
                            e.information *= 2.0
                    for par in (getattr(g, "_g2o_params", None) or {}).values():
                        par.value[1] = float(par.value[1]) + 0.5
            if dry:
                res.counts = w.op_counts()
                res.counts["__actions__"] = [list(a) for a in w.disk.actions]
                return res
            fsig = ["%s:%s@%s" % (f["seam"], f["kind"], pos_bucket(f["event"], f.get("of", 0))) for f in case.get("faults", [])]
            tags = sorted({ln["s"].split(" ")[0] for ln in case["workload"]["lines"] if ln["kind"] == "line"})
            sig = [tags, meta.get("eol"), meta.get("order"), meta.get("exotic"), meta.get("n_junk"), sig_ops, sorted(fsig)]
            res.faults_planned = len(case.get("faults", []))
            res.nontrivial = compared >= 2 and any(ln["s"].startswith("EDGE_") for ln in case["workload"]["lines"] if ln["kind"] == "line")
            finish_result(res, w, log, sig)
        return res

    def _probes_for_text(self, res, case, text):
        meta = case.get("meta", {})
        seen = set()
        first_edge = None
        last_vertex = None
        for k, ln in enumerate(case["workload"]["lines"]):
            if ln["kind"] == "line":
                t = ln["s"].split(" ")[0]
                seen.add(t)
                if t.startswith("EDGE") and first_edge is None:
                    first_edge = k
                if t.startswith("VERTEX"):
                    last_vertex = k
            elif ln["kind"] == "junk" and re.match(r"^(VERTEX|EDGE|PARAMS)", ln["s"]):
                res.probe("near_miss_tag")
            elif ln["kind"] == "junk" and re.search(r"[\x0b\x0c\x1c\x1d\x1e]", ln["s"]):
                res.probe("control_char_junk")
        for t in seen:
            if t in TAGS:
                res.probe("tag_" + t)
            else:
                res.probe("custom_tag")
        if "\r\n" in text:
            res.probe("crlf")
        if text and not text.endswith("\n"):
            res.probe("no_final_newline")
        if first_edge is not None and last_vertex is not None and last_vertex > first_edge:
            res.probe("vertex_after_edge")
        if meta.get("exotic"):
            res.probe("exotic_float_syntax")
        for ln in case["workload"]["lines"]:
            if ln["kind"] == "line" and ln["s"].startswith("EDGE_SE3:QUAT "):
                f = ln["s"].split()
                q = [float(x) for x in f[6:10]]
                if abs(math.sqrt(sum(v * v for v in q)) - 1.0) > 1e-9:
                    res.probe("nonunit_measurement_quat")
                    break

    def shrink_moves(self, case):
        lines = case["workload"]["lines"]
        has_b = bool(case["workload"].get("lines_b"))
        for k in range(len(lines)):
            c = copy.deepcopy(case)
            del c["workload"]["lines"][k]
            if has_b and k < len(c["workload"]["lines_b"]) and len(c["workload"]["lines_b"]) == len(lines):
                del c["workload"]["lines_b"][k]
            yield c
        if case["workload"].get("lines_bad"):
            c = copy.deepcopy(case)
            del c["workload"]["lines_bad"]
            c["ops"] = [o for o in c["ops"] if o["op"] != "load_bad"]
            c["faults"] = []
            yield c
        for k, ln in enumerate(lines):
            if ln["eol"] == "\r\n":
                c = copy.deepcopy(case)
                c["workload"]["lines"][k]["eol"] = "\n"
                yield c
            s2 = re.sub(r" +", " ", ln["s"]).rstrip(" ") if ln["kind"] == "line" else ln["s"]
            if s2 != ln["s"]:
                c = copy.deepcopy(case)
                c["workload"]["lines"][k]["s"] = s2
                yield c
        for k, o in enumerate(case["ops"]):
            for key, dflt in (("xfer", 4096), ("bufsize", 8192), ("logger", "default")):
                if o.get(key) != dflt:
                    c = copy.deepcopy(case)
                    c["ops"][k][key] = dflt
                    yield c
